----------------------------- MODULE X509Parse -----------------------------
(***************************************************************************)
(* The lenient X.509 certificate parser (x509/x509.go ParseCertificate,    *)
(* ParseTBSCertificate, ParseCertificates) as a parse pipeline, and its    *)
(* contract (C11): the parser is total, error-coherent and exact on        *)
(* well-formed input.                                                      *)
(*                                                                         *)
(*   StrictDER -> (on error) LaxDER -> TrailingCheck ->                    *)
(*   FieldParse(spki, subject, issuer, extension_1 .. extension_n) -> Done *)
(*                                                                         *)
(* Every stage ends in ok / nonFatal / fatal.  A non-fatal finding is      *)
(* recorded and the parse goes on; a fatal one ends it without an object.  *)
(* The result is one of                                                    *)
(*      <<obj, nil>>   <<obj, nonFatal>>   <<nil, fatal>>                  *)
(* and never a mixed pair; callers rely on IsFatal(err) <=> obj = nil.     *)
(*                                                                         *)
(* Case space.  An input is a certificate TEMPLATE, as a conforming        *)
(* encoder issues it (a subset of the extension kinds the parser           *)
(* interprets, a name string type, a key type, validity before / after     *)
(* 2050), with at most one STRUCTURE-PRESERVING MUTATION: one field is     *)
(* edited, the enclosing lengths are rebuilt.  The mutation table says     *)
(* which stage a mutation hits and what the stage makes of it; the         *)
(* pipeline turns that into the set of outcome classes the contract        *)
(* allows.  The table is the contract in the small: it is written from     *)
(* the documented leniency of the fork                                     *)
(*   L1 asn1 "lax": integers that are not minimally encoded                *)
(*   L2 asn1 "lax": PrintableString with other (ISO 8859-1 / T.61) octets  *)
(*   L3 asn1 "lax": zero-length OBJECT IDENTIFIER                          *)
(*   N1 RSA key without NULL parameters, non-positive RSA modulus          *)
(*   N2 subjectAltName iPAddress of a length other than 4 / 16             *)
(*   N3 name-constraint dNSName / rfc822Name / URI that does not parse     *)
(*   N4 empty ExtendedKeyUsage / AuthorityInfoAccess                       *)
(* (each is "collected in NonFatalErrors, parsing continues") - lax mode   *)
(* is available to the DER stage, to names, to the RSA key and to          *)
(* ExtendedKeyUsage only - and from RFC 5280 / X.690 for everything else:  *)
(* any other defect of the edited field is fatal.                          *)
(*                                                                         *)
(* Exactness.  For the unmutated template the object must carry exactly    *)
(* the field values the standard library's parser reports for the same     *)
(* bytes (names, SANs, key usages, EKUs, basic constraints, name           *)
(* constraints, policies, AIA/OCSP, CRL distribution points, SKI/AKI,      *)
(* unknown and unhandled-critical extensions, validity, serial, version,   *)
(* algorithms, public key, signature, raw fields); the field map is in     *)
(* harness/c11/fields.go.  Deliberate differences of the fork are named:   *)
(*   D1 the RFC 6962 precertificate-signing EKU 1.3.6.1.4.1.11129.2.4.4    *)
(*      is ExtKeyUsageCertificateTransparency in the fork (x509.go,        *)
(*      extKeyUsageOIDs) and an UnknownExtKeyUsage in crypto/x509.         *)
(* No other difference exists on the explored templates.                   *)
(***************************************************************************)
EXTENDS Naturals, Sequences, FiniteSets, TLC

CONSTANTS
  Templates      \* the certificate templates to explore (MC module)

None == [k |-> "none"]

(* ---------------------------------------------------------------------- *)
(* templates                                                               *)
(* ---------------------------------------------------------------------- *)
SANKinds == {"sanDNS", "sanEmail", "sanIP", "sanURI"}     \* payloads of the one subjectAltName extension
ExtKinds == SANKinds \cup {"nc", "ku", "eku", "bc", "pol", "aia", "crldp", "ski", "aki", "unkCrit", "unkNon"}
NameKinds == {"printable", "utf8", "ia5", "t61bmp", "empty"}
KeyKinds == {"rsa", "ecdsa", "ed25519"}
ValidityKinds == {"utc", "gen"}                            \* notAfter before 2050 (UTCTime) / from 2050 on (GeneralizedTime)

TemplateSpace == [exts : SUBSET ExtKinds, name : NameKinds, key : KeyKinds, validity : ValidityKinds]

\* the extensions of a template in the order a conforming encoder emits them; SAN payload kinds share one extension
ExtOrder == <<"ku", "eku", "bc", "ski", "aki", "aia", "san", "pol", "nc", "crldp", "unkCrit", "unkNon">>
HasExt(t, e) == IF e = "san" THEN t.exts \cap SANKinds # {} ELSE e \in t.exts
ExtSeq(t) == SelectSeq(ExtOrder, LAMBDA e : HasExt(t, e))
\* what FieldParse walks through
Components(t) == <<"spki", "subject", "issuer">> \o ExtSeq(t)

(* ---------------------------------------------------------------------- *)
(* mutations                                                               *)
(*   stage   DER: the field is decoded by the generic ASN.1 stage          *)
(*           Trailing: bytes after the outer TLV                           *)
(*           Field: the field is decoded while filling component `comp`    *)
(*   effect  break     no ASN.1 reading of the input exists (strict and    *)
(*                     lax fail)                     -> fatal              *)
(*           laxOK     strict fails, lax succeeds (L1-L3) -> nonFatal      *)
(*           trailing  data after the object          -> fatal             *)
(*           fatal     the component cannot be filled -> fatal             *)
(*           nonFatal  recorded, parsing continues (N1-N4, L1-L3 in a      *)
(*                     component with a lax fallback) -> nonFatal          *)
(*           benign    not an error at parse time (unknown algorithm /     *)
(*                     extension, signature value)    -> ok                *)
(*           tolerated an encoding the standard forbids whose acceptance   *)
(*                     the contract does not pin      -> ok or nonFatal    *)
(*           free      the contract is silent         -> any coherent one  *)
(*   needs   what the template must contain for the mutation to apply      *)
(*   scope   tbs: inside the TBSCertificate (both entry points)            *)
(*           cert: outer signature fields (ParseCertificate only)          *)
(*   envelope TRUE when the outer TLV still delimits the object (it can    *)
(*           be a part of a concatenation)                                 *)
(* ---------------------------------------------------------------------- *)
M(name, stage, comp, effect, needs, scope, envelope) ==
  [name |-> name, stage |-> stage, comp |-> comp, effect |-> effect, needs |-> needs, scope |-> scope, envelope |-> envelope]

MutationTable == {
  M("none",                     "none",     "-",       "none",      {},            "tbs",  TRUE),
  \* outer envelope
  M("truncLast",                "DER",      "-",       "break",     {},            "tbs",  FALSE),
  M("truncHalf",                "DER",      "-",       "break",     {},            "tbs",  FALSE),
  M("empty",                    "DER",      "-",       "break",     {},            "tbs",  FALSE),
  M("outerTagSet",              "DER",      "-",       "break",     {},            "tbs",  FALSE),
  M("outerLenPlus1",            "DER",      "-",       "break",     {},            "tbs",  FALSE),
  M("outerLenMinus1",           "DER",      "-",       "break",     {},            "tbs",  FALSE),
  M("outerIndefinite",          "DER",      "-",       "break",     {},            "tbs",  FALSE),
  M("outerLenNonMinimal",       "DER",      "-",       "break",     {},            "tbs",  FALSE),
  M("trailingByte",             "Trailing", "-",       "trailing",  {},            "tbs",  FALSE),
  M("trailingTLV",              "Trailing", "-",       "trailing",  {},            "tbs",  FALSE),
  \* fields the DER stage decodes itself
  M("serialNonMinimal",         "DER",      "-",       "laxOK",     {},            "tbs",  TRUE),    \* L1
  M("versionNonMinimal",        "DER",      "-",       "laxOK",     {},            "tbs",  TRUE),    \* L1
  M("sigAlgOIDEmpty",           "DER",      "-",       "laxOK",     {},            "tbs",  TRUE),    \* L3
  M("extOIDEmpty",              "DER",      "-",       "laxOK",     {"unkNon"},    "tbs",  TRUE),    \* L3
  M("outerSigAlgOIDEmpty",      "DER",      "-",       "laxOK",     {},            "cert", TRUE),    \* L3
  M("serialEmpty",              "DER",      "-",       "break",     {},            "tbs",  TRUE),
  M("notBeforeBadMonth",        "DER",      "-",       "break",     {},            "tbs",  TRUE),
  M("notAfterNoZ",              "DER",      "-",       "break",     {},            "tbs",  TRUE),
  M("extCriticalNonDERBool",    "DER",      "-",       "break",     {"anyExt"},    "tbs",  TRUE),
  M("sigBadPadding",            "DER",      "-",       "break",     {},            "cert", TRUE),
  M("notAfterUTCAsGeneralized", "DER",      "-",       "tolerated", {"utc"},       "tbs",  TRUE),
  M("extCriticalExplicitFalse", "DER",      "-",       "tolerated", {"nonCritExt"}, "tbs", TRUE),
  M("extDuplicate",             "DER",      "-",       "free",      {"anyExt"},    "tbs",  TRUE),
  M("sigBitFlip",               "DER",      "-",       "benign",    {},            "cert", TRUE),
  \* subject public key
  M("spkiAlgUnknown",           "Field",    "spki",    "benign",    {},            "tbs",  TRUE),
  M("rsaModulusNonMinimal",     "Field",    "spki",    "nonFatal",  {"rsa"},       "tbs",  TRUE),    \* L1
  M("rsaModulusNegative",       "Field",    "spki",    "nonFatal",  {"rsa"},       "tbs",  TRUE),    \* N1
  M("rsaParamsAbsent",          "Field",    "spki",    "nonFatal",  {"rsa"},       "tbs",  TRUE),    \* N1
  M("rsaExponentZero",          "Field",    "spki",    "fatal",     {"rsa"},       "tbs",  TRUE),
  M("rsaKeyTrailing",           "Field",    "spki",    "fatal",     {"rsa"},       "tbs",  TRUE),
  M("ecPointBadForm",           "Field",    "spki",    "fatal",     {"ecdsa"},     "tbs",  TRUE),
  M("ecCurveUnknown",           "Field",    "spki",    "fatal",     {"ecdsa"},     "tbs",  TRUE),
  M("ecParamsNotOID",           "Field",    "spki",    "fatal",     {"ecdsa"},     "tbs",  TRUE),
  M("edKeyShort",               "Field",    "spki",    "free",      {"ed25519"},   "tbs",  TRUE),
  \* names
  M("subjectPrintableAt",       "Field",    "subject", "nonFatal",  {"printable"}, "tbs",  TRUE),    \* L2
  M("subjectPrintableLatin1",   "Field",    "subject", "nonFatal",  {"printable"}, "tbs",  TRUE),    \* L2
  M("issuerPrintableAt",        "Field",    "issuer",  "nonFatal",  {"printable"}, "tbs",  TRUE),    \* L2
  M("subjectAttrOIDEmpty",      "Field",    "subject", "nonFatal",  {"nonEmptyName"}, "tbs", TRUE),  \* L3
  M("subjectUTF8Invalid",       "Field",    "subject", "fatal",     {"utf8"},      "tbs",  TRUE),
  M("subjectIA5HighBit",        "Field",    "subject", "fatal",     {"ia5"},       "tbs",  TRUE),
  M("issuerNotSequence",        "Field",    "issuer",  "fatal",     {},            "tbs",  TRUE),
  \* extension payloads
  M("kuTrailing",               "Field",    "ku",      "fatal",     {"ku"},        "tbs",  TRUE),
  M("kuNotBitString",           "Field",    "ku",      "fatal",     {"ku"},        "tbs",  TRUE),
  M("kuBadPadding",             "Field",    "ku",      "fatal",     {"ku"},        "tbs",  TRUE),
  M("bcTrailing",               "Field",    "bc",      "fatal",     {"bc"},        "tbs",  TRUE),
  M("bcNotSequence",            "Field",    "bc",      "fatal",     {"bc"},        "tbs",  TRUE),
  M("sanIPLen5",                "Field",    "san",     "nonFatal",  {"sanIP"},     "tbs",  TRUE),    \* N2
  M("sanURIUnparsable",         "Field",    "san",     "fatal",     {"sanURI"},    "tbs",  TRUE),
  M("sanURIBadHost",            "Field",    "san",     "fatal",     {"sanURI"},    "tbs",  TRUE),
  M("sanNotSequence",           "Field",    "san",     "fatal",     {"san"},       "tbs",  TRUE),
  M("sanTrailing",              "Field",    "san",     "fatal",     {"san"},       "tbs",  TRUE),
  M("sanEmptySequence",         "Field",    "san",     "tolerated", {"san"},       "tbs",  TRUE),
  M("sanOtherNameOnly",         "Field",    "san",     "tolerated", {"san"},       "tbs",  TRUE),
  M("ncBaseDNSSpace",           "Field",    "nc",      "nonFatal",  {"nc"},        "tbs",  TRUE),    \* N3
  M("ncBaseEmailBad",           "Field",    "nc",      "nonFatal",  {"nc"},        "tbs",  TRUE),    \* N3
  M("ncBaseURIBad",             "Field",    "nc",      "nonFatal",  {"nc"},        "tbs",  TRUE),    \* N3
  M("ncBaseDNSNonIA5",          "Field",    "nc",      "fatal",     {"nc"},        "tbs",  TRUE),
  M("ncBaseURIIsIP",            "Field",    "nc",      "fatal",     {"nc"},        "tbs",  TRUE),
  M("ncBaseIPBadMask",          "Field",    "nc",      "fatal",     {"nc"},        "tbs",  TRUE),
  M("ncBaseIPLen5",             "Field",    "nc",      "fatal",     {"nc"},        "tbs",  TRUE),
  M("ncEmptySequence",          "Field",    "nc",      "fatal",     {"nc"},        "tbs",  TRUE),
  M("ncTrailing",               "Field",    "nc",      "fatal",     {"nc"},        "tbs",  TRUE),
  M("ncBaseDirName",            "Field",    "nc",      "tolerated", {"nc"},        "tbs",  TRUE),
  M("ekuValueEmpty",            "Field",    "eku",     "nonFatal",  {"eku"},       "tbs",  TRUE),    \* N4
  M("ekuOIDEmpty",              "Field",    "eku",     "nonFatal",  {"eku"},       "tbs",  TRUE),    \* L3
  M("ekuTrailing",              "Field",    "eku",     "fatal",     {"eku"},       "tbs",  TRUE),
  M("ekuNotSequence",           "Field",    "eku",     "fatal",     {"eku"},       "tbs",  TRUE),
  M("polTrailing",              "Field",    "pol",     "fatal",     {"pol"},       "tbs",  TRUE),
  M("polOIDEmpty",              "Field",    "pol",     "fatal",     {"pol"},       "tbs",  TRUE),    \* no lax fallback for policies
  M("aiaEmptySequence",         "Field",    "aia",     "nonFatal",  {"aia"},       "tbs",  TRUE),    \* N4
  M("aiaTrailing",              "Field",    "aia",     "fatal",     {"aia"},       "tbs",  TRUE),
  M("aiaMethodNotOID",          "Field",    "aia",     "fatal",     {"aia"},       "tbs",  TRUE),
  M("aiaLocationDNS",           "Field",    "aia",     "tolerated", {"aia"},       "tbs",  TRUE),
  M("crldpTrailing",            "Field",    "crldp",   "fatal",     {"crldp"},     "tbs",  TRUE),
  M("crldpNotSequence",         "Field",    "crldp",   "fatal",     {"crldp"},     "tbs",  TRUE),
  M("crldpEmptySeq",            "Field",    "crldp",   "tolerated", {"crldp"},     "tbs",  TRUE),
  M("skiTrailing",              "Field",    "ski",     "fatal",     {"ski"},       "tbs",  TRUE),
  M("skiNotOctetString",        "Field",    "ski",     "fatal",     {"ski"},       "tbs",  TRUE),
  M("akiTrailing",              "Field",    "aki",     "fatal",     {"aki"},       "tbs",  TRUE),
  M("akiNotSequence",           "Field",    "aki",     "fatal",     {"aki"},       "tbs",  TRUE),
  \* degenerate payloads: well-formed DER of the right outer type with nothing (or the least possible) inside.
  \* The contract does not pin the outcome; totality (no panic) and coherence do apply
  M("kuEmptyBits",              "Field",    "ku",      "free",      {"ku"},        "tbs",  TRUE),    \* BIT STRING with no bits
  M("kuNineBits",               "Field",    "ku",      "free",      {"ku"},        "tbs",  TRUE),    \* only decipherOnly (second octet)
  M("kuOneBit",                 "Field",    "ku",      "free",      {"ku"},        "tbs",  TRUE),
  M("bcEmptySequence",          "Field",    "bc",      "free",      {"bc"},        "tbs",  TRUE),
  M("ekuEmptySequence",         "Field",    "eku",     "free",      {"eku"},       "tbs",  TRUE),
  M("polEmptySequence",         "Field",    "pol",     "free",      {"pol"},       "tbs",  TRUE),
  M("polEmptyInfo",             "Field",    "pol",     "free",      {"pol"},       "tbs",  TRUE),
  M("skiEmpty",                 "Field",    "ski",     "free",      {"ski"},       "tbs",  TRUE),
  M("akiEmptySequence",         "Field",    "aki",     "free",      {"aki"},       "tbs",  TRUE),
  M("akiEmptyKeyId",            "Field",    "aki",     "free",      {"aki"},       "tbs",  TRUE),
  M("aiaEmptyDescription",      "Field",    "aia",     "free",      {"aia"},       "tbs",  TRUE),
  M("crldpEmptyPoint",          "Field",    "crldp",   "free",      {"crldp"},     "tbs",  TRUE),
  M("crldpEmptyFullName",       "Field",    "crldp",   "free",      {"crldp"},     "tbs",  TRUE),
  M("ncEmptySubtrees",          "Field",    "nc",      "free",      {"nc"},        "tbs",  TRUE),
  M("ncEmptySubtree",           "Field",    "nc",      "free",      {"nc"},        "tbs",  TRUE),
  M("sanEmptyName",             "Field",    "san",     "free",      {"san"},       "tbs",  TRUE),
  M("subjectEmptyRDN",          "Field",    "subject", "free",      {"nonEmptyName"}, "tbs", TRUE),
  M("subjectEmptyAttrValue",    "Field",    "subject", "free",      {"nonEmptyName"}, "tbs", TRUE),
  M("extValueEmpty",            "DER",      "-",       "free",      {"anyExt"},    "tbs",  TRUE),    \* every extnValue emptied in turn
  M("unkNonMadeCritical",       "Field",    "unkNon",  "benign",    {"unkNon"},    "tbs",  TRUE),
  M("unkCritGarbage",           "Field",    "unkCrit", "benign",    {"unkCrit"},   "tbs",  TRUE)
}

Needs(t, n) ==
  CASE n \in ExtKinds        -> n \in t.exts
    [] n = "san"             -> t.exts \cap SANKinds # {}
    [] n = "anyExt"          -> t.exts # {}
    [] n = "nonCritExt"      -> (t.exts \cap {"eku", "ski", "aki", "aia", "pol", "crldp", "unkNon"}) # {}
    [] n \in KeyKinds        -> t.key = n
    [] n = "nonEmptyName"    -> t.name # "empty"
    [] n \in NameKinds       -> t.name = n
    [] n \in ValidityKinds   -> t.validity = n
Applicable(t, m) == \A n \in m.needs : Needs(t, n)

\* a case: a template with one applicable mutation ("none" included)
IsCase(x) == x.tpl \in Templates /\ x.mut \in MutationTable /\ Applicable(x.tpl, x.mut)

(* ---------------------------------------------------------------------- *)
(* the pipeline (one object)                                               *)
(* ---------------------------------------------------------------------- *)
VARIABLES
  c,       \* the input: template and mutation
  stage,   \* StrictDER, LaxDER, Trailing, Field, Done ("off" while the concatenation machine runs)
  todo,    \* components FieldParse still has to fill
  nfe,     \* non-fatal findings: <<where, sure>>; sure = FALSE when the contract leaves reporting open
  obj,     \* "obj" once the object under construction exists, "nil" otherwise
  err      \* "nil", "nonFatal", "fatal" - meaningful in stage Done

vars == <<c, stage, todo, nfe, obj, err>>

PipeInit ==
  /\ \E t \in Templates, m \in MutationTable : Applicable(t, m) /\ c = [tpl |-> t, mut |-> m]
  /\ stage = "StrictDER"
  /\ todo = <<>>
  /\ nfe = {}
  /\ obj = "nil"
  /\ err = "nil"

PipeOff == c = None /\ stage = "off" /\ todo = <<>> /\ nfe = {} /\ obj = "nil" /\ err = "nil"

HitsDER == c.mut.stage = "DER" /\ c.mut.effect \in {"break", "laxOK"}
Open == {"tolerated", "free"}

Fail == /\ stage' = "Done"
        /\ obj' = "nil"
        /\ err' = "fatal"
        /\ UNCHANGED <<c, todo, nfe>>

\* strict DER decoding of the whole object
StrictDER ==
  /\ stage = "StrictDER"
  /\ IF HitsDER THEN stage' = "LaxDER" /\ UNCHANGED nfe
     ELSE /\ stage' = "Trailing"
          /\ nfe' = IF c.mut.stage = "DER" /\ c.mut.effect \in Open THEN {<<"der", FALSE>>} ELSE nfe
  /\ UNCHANGED <<c, todo, obj, err>>

\* second attempt with the relaxed decoder; the strict error is kept as a non-fatal finding
LaxDER ==
  /\ stage = "LaxDER"
  /\ IF c.mut.effect = "break" THEN Fail
     ELSE /\ stage' = "Trailing"
          /\ nfe' = nfe \cup {<<"der", TRUE>>}
          /\ UNCHANGED <<c, todo, obj, err>>

\* "free" at the DER stage: the contract does not say whether a reading exists
FreeDER ==
  /\ stage = "StrictDER"
  /\ c.mut.stage = "DER" /\ c.mut.effect = "free"
  /\ Fail

TrailingCheck ==
  /\ stage = "Trailing"
  /\ IF c.mut.stage = "Trailing" THEN Fail
     ELSE /\ stage' = "Field"
          /\ todo' = Components(c.tpl)
          /\ obj' = "obj"
          /\ UNCHANGED <<c, nfe, err>>

\* one component; the mutation, if it lives here, decides
FieldParse ==
  /\ stage = "Field"
  /\ todo # <<>>
  /\ LET h == Head(todo)
         hit == c.mut.stage = "Field" /\ c.mut.comp = h IN
     \/ /\ hit /\ c.mut.effect \in {"fatal", "free"}
        /\ Fail
     \/ /\ ~(hit /\ c.mut.effect = "fatal")
        /\ todo' = Tail(todo)
        /\ nfe' = IF hit /\ c.mut.effect = "nonFatal" THEN nfe \cup {<<h, TRUE>>}
                  ELSE IF hit /\ c.mut.effect \in Open THEN nfe \cup {<<h, FALSE>>}
                  ELSE nfe
        /\ UNCHANGED <<c, stage, obj, err>>

\* all components filled: the findings become the (non-fatal) error
Finish ==
  /\ stage = "Field"
  /\ todo = <<>>
  /\ stage' = "Done"
  /\ err' \in IF nfe = {} THEN {"nil"}
              ELSE IF \E f \in nfe : f[2] THEN {"nonFatal"}
              ELSE {"nil", "nonFatal"}
  /\ UNCHANGED <<c, todo, nfe, obj>>

PipeNext == StrictDER \/ LaxDER \/ FreeDER \/ TrailingCheck \/ FieldParse \/ Finish

(* ---------------------------------------------------------------------- *)
(* the property                                                            *)
(* ---------------------------------------------------------------------- *)
Result == <<obj, err>>
Good == {<<"obj", "nil">>, <<"obj", "nonFatal">>, <<"nil", "fatal">>}
IsFatal(e) == e = "fatal"

TypeOK == /\ stage \in {"StrictDER", "LaxDER", "Trailing", "Field", "Done", "off"}
          /\ obj \in {"nil", "obj"}
          /\ err \in {"nil", "nonFatal", "fatal"}

\* the mixed outcomes are unreachable
Coherent == stage = "Done" => /\ Result \in Good
                              /\ (IsFatal(err) <=> obj = "nil")

\* a well-formed certificate parses with no error at all
WellFormedClean == (stage = "Done" /\ c.mut.name = "none") => Result = <<"obj", "nil">>

\* no object exists before the input has been read as DER and found to end where the object ends
NoObjectBeforeDER == stage \in {"StrictDER", "LaxDER", "Trailing"} => obj = "nil"

\* a finding the contract is sure about is never dropped
FindingsReported == (stage = "Done" /\ obj = "obj" /\ \E f \in nfe : f[2]) => err = "nonFatal"

Class(r) == IF r = <<"obj", "nil">> THEN "ok" ELSE IF r = <<"obj", "nonFatal">> THEN "nonFatal" ELSE "fatal"

(* ---------------------------------------------------------------------- *)
(* concatenation (ParseCertificates): parts that keep their envelope       *)
(* ---------------------------------------------------------------------- *)
\* class of a case as a part of a concatenation; "" when it cannot be one
PartOf(m) ==
  IF ~m.envelope THEN ""
  ELSE CASE m.name = "none"        -> "ok"
         [] m.effect = "laxOK"     -> "laxDER"
         [] m.effect = "nonFatal"  -> "nfField"
         [] m.effect = "break"     -> "fatalDER"
         [] m.effect = "fatal"     -> "fatalField"
         [] OTHER                  -> ""

PartClasses == {"ok", "laxDER", "nfField", "fatalDER", "fatalField", "garbage"}
\* what the single-object pipeline makes of a part
PartAlone(p) == CASE p = "ok" -> "ok"
                  [] p \in {"laxDER", "nfField"} -> "nonFatal"
                  [] OTHER -> "fatal"

CONSTANT MaxParts

VARIABLES
  parts,   \* the input: a sequence of part classes
  phase,   \* "der" (cut the input into objects), "fields" (fill each), "done"
  i,       \* next part
  lnfe,    \* non-fatal findings so far
  list,    \* NilList or Certs(n)
  lerr

cvars == <<parts, phase, i, lnfe, list, lerr>>

NilList == [nil |-> TRUE, n |-> 0]
Certs(k) == [nil |-> FALSE, n |-> k]

ConcatOff == parts = <<>> /\ phase = "off" /\ i = 0 /\ lnfe = FALSE /\ list = NilList /\ lerr = "nil"

ConcatStart ==
  /\ parts \in UNION {[1..n -> PartClasses] : n \in 1..MaxParts}
  /\ phase = "der"
  /\ i = 1
  /\ lnfe = FALSE
  /\ list = NilList
  /\ lerr = "nil"

ConcatFail == phase' = "done" /\ list' = NilList /\ lerr' = "fatal" /\ UNCHANGED <<parts, i, lnfe>>

\* first loop: strict, then lax DER decoding of the next object; anything that is not an object is fatal
ConcatDER ==
  /\ phase = "der"
  /\ IF i > Len(parts) THEN phase' = "fields" /\ i' = 1 /\ UNCHANGED <<parts, lnfe, list, lerr>>
     ELSE IF parts[i] \in {"fatalDER", "garbage"} THEN ConcatFail
     ELSE /\ i' = i + 1
          /\ lnfe' = (lnfe \/ parts[i] = "laxDER")
          /\ UNCHANGED <<parts, phase, list, lerr>>

\* second loop: fill each certificate
ConcatFields ==
  /\ phase = "fields"
  /\ IF i > Len(parts)
       THEN /\ phase' = "done"
            /\ list' = Certs(Len(parts))
            /\ lerr' = IF lnfe THEN "nonFatal" ELSE "nil"
            /\ UNCHANGED <<parts, i, lnfe>>
     ELSE IF parts[i] = "fatalField" THEN ConcatFail
     ELSE /\ i' = i + 1
          /\ lnfe' = (lnfe \/ parts[i] = "nfField")
          /\ UNCHANGED <<parts, phase, list, lerr>>

\* the two machines share the module; each run drives one of them
Init == PipeInit /\ ConcatOff
Next == PipeNext /\ UNCHANGED cvars
Spec == Init /\ [][Next]_<<vars, cvars>>

ConcatInit == PipeOff /\ ConcatStart
ConcatNext == (ConcatDER \/ ConcatFields) /\ UNCHANGED vars

Join(a, b) == IF "fatal" \in {a, b} THEN "fatal" ELSE IF "nonFatal" \in {a, b} THEN "nonFatal" ELSE "ok"
RECURSIVE JoinAll(_)
JoinAll(s) == IF s = <<>> THEN "ok" ELSE Join(PartAlone(Head(s)), JoinAll(Tail(s)))

ListClass == IF list.nil THEN "fatal" ELSE IF lerr = "nil" THEN "ok" ELSE "nonFatal"

\* the list outcome is the join of the parts' own outcomes, and coherent
ConcatLaw == phase = "done" =>
               /\ ListClass = JoinAll(parts)
               /\ (list.nil <=> lerr = "fatal")
               /\ (~list.nil => list.n = Len(parts))
=============================================================================
