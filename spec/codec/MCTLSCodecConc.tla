--------------------------- MODULE MCTLSCodecConc ---------------------------
(***************************************************************************)
(* Rounds of TLSCodecConc.tla made concrete for the Go harness (C09): the  *)
(* type-shape dimension of MCTLSCodec.tla (plus structs of 12 .. 250       *)
(* members: the width of the first-use window, and top-level vectors of    *)
(* structs for the ...WithParams entry points) times the dimensions a      *)
(* harness can impose on goroutines:                                       *)
(*                                                                         *)
(*   g      2 | 4 | 8 callers released together                            *)
(*   mix    all Marshal | all Unmarshal | alternating                      *)
(*   vals   every caller the same arguments | caller k its own (value      *)
(*          number k, byte string number k: valid, truncated, bumped ...;  *)
(*          refused values and byte strings are among them)                *)
(*   pre    no call before the wave (FIRST USE of every struct type of the *)
(*          shape happens inside the wave) | one accepted call | one       *)
(*          refused call                                                   *)
(*   post   a solo call after the wave | none                              *)
(*   types  the callers share one fresh type | are split over two          *)
(*                                                                         *)
(* One TLC state per shape ("base": the CaseRec of every value of the      *)
(* shape, i.e. the model's Enc / Dec results = Alone for every call the    *)
(* harness can make on it; the three laws of TLSCodec are invariants of    *)
(* it) and one per round ("round": which calls).  The harness gives every  *)
(* execution of a round its own renaming of the member names: the laws are *)
(* invariant under renaming and reflect.StructOf yields a type the package *)
(* has never seen.                                                         *)
(***************************************************************************)
EXTENDS MCTLSCodec

(* ---------- the added shapes ---------- *)
WideN == IF Tier = "quick" THEN <<12, 40, 96>> ELSE <<12, 40, 96, 120, 250>>
KindAt(q, s) == S(((q + s - 2) % NS) + 1)
\* (\o <<>> makes TLC build the tuple once instead of evaluating the function expression at every application)
WideType(n, s) == Struct([q \in 1..n |-> Field("F" \o ToString(q), KindAt(q, s).t)] \o <<>>)
WideVal(n, s, vi) == VStruct([q \in 1..n |-> Val(KindAt(q, s), vi)] \o <<>>)
\* a top-level vector of structs: tls.MarshalWithParams / UnmarshalWithParams walk a struct type they were not handed directly
TopVecType(j, l) == Vec(ElemBounds[l][1], ElemBounds[l][2], Elem(j, l))
TopVecVal(j, l, vi) == VList([e \in 1..ElemCount(vi) |-> ElemVal(j, l, vi + e)])

Shape(fam, i, j, l) == [fam |-> fam, i |-> i, j |-> j, l |-> l]
At(sh, vi) == Idx(sh.fam, sh.i, sh.j, sh.l, vi)
Up(a, d) == ((a + d - 1) % NS) + 1
VariantShape(sk, form, a1) == Shape("variant", (sk - 1) * 4 + form, (a1 - 1) * NA + (a1 % NA) + 1, 1)
\* (the model's Enc / Dec of a 100-member struct costs TLC 10 to 25 s: one of them in the quick tier)
WideShapes == {sh \in {Shape("wide", WideN[n], s, 0) : n \in 1..Len(WideN), s \in {1, 4}} :
                 Tier = "quick" => ~(sh.i >= 64 /\ sh.j = 4)}
Starts == IF Tier = "quick" THEN {1, 4, 7} ELSE 1..NS
Shapes ==
       {Shape("pair", SmallIdx[a], SmallIdx[Up(a, 1)], 0) : a \in 1..NS}
  \cup {Shape("triple", a, Up(a, 1), Up(a, 2)) : a \in Starts}
  \cup {Shape("nest", a, Up(a, 2), Up(a, 4)) : a \in Starts}
  \cup {Shape("vecs", 1, 2, 1), Shape("vecs", 1, 2, 2), Shape("vecs", 5, 6, 1), Shape("vecs", 4, 3, 2)}
  \cup {Shape("vecu", a, j, 1) : a \in {2}, j \in {3, 8}}
  \cup {VariantShape(sk, form, ((sk + form) % NA) + 1) :
           sk \in (IF Tier = "quick" THEN {1, 3} ELSE 1..Len(SelKinds)), form \in 1..4}
  \cup WideShapes
  \cup {Shape("topvecs", 0, j, l) : j \in {2, 9}, l \in 1..2}

NVals(sh) == IF sh.fam = "variant" THEN 6 ELSE 4
TypeOf2(x) == CASE x.fam = "wide" -> WideType(x.i, x.j)
                [] x.fam = "topvecs" -> TopVecType(x.j, x.l)
                [] OTHER -> TypeOf(x)
ValOf2(x) == CASE x.fam = "wide" -> WideVal(x.i, x.j, x.vi)
               [] x.fam = "topvecs" -> TopVecVal(x.j, x.l, x.vi)
               [] OTHER -> ValOf(x)
CaseRec2(x) ==
  LET T == TypeOf2(x)  v == ValOf2(x)  e == Enc(T, v)
      raw == IF e.ok THEN Fail ELSE RawEnc(T, v)
      ins == IF e.ok THEN Mutations(e.b, x.fam = "wide" /\ x.i >= 64) ELSE NegInputs(raw) IN    \* (fewer byte strings for the widest)
  [id |-> x, top |-> (x.fam = "topvecs"), t |-> T, v |-> v, enc |-> e, raw |-> raw,
   ins |-> {[m |-> i.m, p |-> i.p, d |-> i.d, b |-> i.b, dec |-> Dec(T, i.b)] : i \in ins}]

(* ---------- rounds ---------- *)
Round(sh, g, mix, vals, pre, post, types) ==
  [kind |-> "round", shape |-> sh, g |-> g, mix |-> mix, vals |-> vals, pre |-> pre, post |-> post, types |-> types]
Gs == {2, 4, 8}
Mixes == {"enc", "dec", "mixed"}
RoundsOf(sh) ==
       {Round(sh, g, mix, vals, "none", TRUE, 1) : g \in Gs, mix \in Mixes, vals \in {"same", "distinct"}}
  \cup {Round(sh, 4, "mixed", "distinct", pre, post, types) : pre \in {"none", "ok", "refused"}, post \in BOOLEAN, types \in 1..2}
  \cup {Round(sh, 8, mix, "distinct", "none", FALSE, 2) : mix \in Mixes}
  \cup {Round(sh, 2, "mixed", "same", pre, TRUE, 2) : pre \in {"none", "refused"}}

\* the call of caller k (1..g) of the wave; the solo calls.  `vi`: which value of the shape; for Unmarshal `okin` and
\* `ord` choose the byte string among the inputs of that value: the ord-th (cyclically, in exported order) of those the
\* model accepts (okin) or refuses (~okin); when the value has no such input, of all its inputs; when it has none at
\* all (a refused value without layout), the caller marshals the value instead.
CallOf(r, k) ==
  [op |-> CASE r.mix = "enc" -> "enc" [] r.mix = "dec" -> "dec" [] OTHER -> IF k % 2 = 1 THEN "enc" ELSE "dec",
   vi |-> IF r.vals = "same" THEN 1 ELSE ((k - 1) % NVals(r.shape)) + 1,
   okin |-> (r.vals = "same" \/ k % 3 # 0),
   ord |-> IF r.vals = "same" THEN 0 ELSE k,
   type |-> IF r.types = 1 THEN 1 ELSE ((k - 1) % 2) + 1]
\* The solo calls are fixed by the shape's base record (the harness reads them off it, so that a round does not
\* re-evaluate Enc): pre = "ok": Unmarshal of the encoding of the least value the model accepts; pre = "refused":
\* Marshal of the least value the model refuses (Unmarshal of the first refused byte string of value 1 when every
\* value is accepted); post: Unmarshal of the encoding of the greatest accepted value.  A shape none of whose values
\* is accepted (two members of one kind whose value lists are out of step) has refused calls only and no solo calls.
RoundRec(r) == [kind |-> "round", shape |-> r.shape, g |-> r.g, mix |-> r.mix, vals |-> r.vals, pre |-> r.pre,
                post |-> r.post, types |-> r.types,
                calls |-> [k \in 1..r.g |-> CallOf(r, k)]]
BaseRec(sh) == [kind |-> "base", shape |-> sh, cases |-> [vi \in 1..NVals(sh) |-> CaseRec2(At(sh, vi))]]

\* this process takes the shapes of its partition (VERIF_PART / VERIF_PARTS as in MCTLSCodec; the widest structs apart)
ShapeOrd(sh) == IF sh.fam = "wide" /\ sh.i >= 64 THEN sh.j ELSE sh.i + 7 * sh.j + 13 * sh.l
MyShapes == {sh \in Shapes : ShapeOrd(sh) % Parts = Part}
ConcInit == c \in {[kind |-> "base", shape |-> sh] : sh \in MyShapes} \cup UNION {RoundsOf(sh) : sh \in MyShapes}
ConcNext == UNCHANGED c
\* the laws of TLSCodec on the added shapes; a round only uses what its shape has
ConcCheckAndExport ==
  IF c.kind = "base"
  THEN LET b == BaseRec(c.shape) IN
       /\ \A vi \in 1..NVals(c.shape) : Laws(b.cases[vi])
       /\ PrintT(<<"BASE", ToJson(b)>>)
  ELSE LET r == RoundRec(c) IN
       /\ \A k \in 1..r.g : r.calls[k].vi \in 1..NVals(c.shape)
       /\ PrintT(<<"ROUND", ToJson(r)>>)
=============================================================================
