\* quick tier: pairwise-plus template coverage x every applicable mutation; -workers 1 (CASE export)
CONSTANTS
  Templates <- QuickTemplates
  MaxParts = 3
INIT Init
NEXT Next
INVARIANTS TypeOK Coherent WellFormedClean NoObjectBeforeDER FindingsReported ExportCase
CHECK_DEADLOCK FALSE
