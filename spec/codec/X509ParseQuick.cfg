\* quick tier: pairwise-plus template coverage x every applicable mutation; -workers 1 (CASE export)
CONSTANTS
  Templates <- QuickTemplates
  MaxParts = 3
  PermAll = 3
  HistShapes <- MCHistShapesSmall
  HistMutNames <- MCHistMutNamesSmall
  HistSlots = {"iss"}
  HistDepth = 2
INIT Init
NEXT Next
INVARIANTS TypeOK Coherent WellFormedClean NoObjectBeforeDER FindingsReported UnhandledIsOrderFree OrderIsPermutation ExportCase
CHECK_DEADLOCK FALSE
