------------------------------ MODULE Precert ------------------------------
(***************************************************************************)
(* C03 - the precertificate route and the embedded-SCT route yield the     *)
(* identical log entry.  Written from RFC 6962 sections 3.1, 3.2 and 3.3.  *)
(*                                                                         *)
(* Abstraction.  A TBSCertificate is a record of opaque fields (serial,    *)
(* signature algorithm, issuer, validity, subject, key, unique ids: each a *)
(* tag naming one concrete DER encoding, the harness materializes it) plus *)
(* `exts`, the sequence of extensions [id, crit, val], and `xf`, whether   *)
(* the extensions field [3] is present at all.  The DER of a TBS is an     *)
(* injective function of this record (the harness' own builder), so        *)
(* equality of records is equality of byte strings.                        *)
(*                                                                         *)
(* Two kinds of field are NOT opaque, because an implementation that       *)
(* parses the TBSCertificate and encodes it again writes them afresh: the  *)
(* serial number (an INTEGER) and every length and object identifier.      *)
(* Section "DER primitives" states their one DER encoding (X.690 8.1.3,    *)
(* 8.3, 8.19) with the laws that make it the only one; the serial numbers  *)
(* of the case space are given by VALUE and the octets the harness puts    *)
(* into the certificates are IntOctets(value).                             *)
(*                                                                         *)
(* Named clause EmptyExtensionsKept.  RFC 5280 has Extensions ::= SEQUENCE *)
(* SIZE (1..MAX); neither it nor RFC 6962 says what the TBSCertificate     *)
(* "without the poison extension" is when the poison was the only          *)
(* extension.  The code under test keeps the field, now empty              *)
(* ([3] { SEQUENCE {} }): exactly the bytes of the one extension go, and   *)
(* both routes do the same.  The specification records that (xf is never   *)
(* changed); a client that omits the empty field computes another entry.   *)
(*                                                                         *)
(* RFC 6962 3.2: the logged tbs_certificate is the TBSCertificate of the   *)
(* precertificate "without the signature and the poison extension.  If the *)
(* Precertificate is not signed with the CA certificate that will issue    *)
(* the final certificate, then the TBSCertificate also has its issuer      *)
(* changed to that of the CA that will issue the final certificate.  Note  *)
(* that it is also possible to reconstruct this TBSCertificate from the    *)
(* final certificate by extracting the TBSCertificate from it and deleting *)
(* the SCT extension. [...] If the Precertificate is issued using a        *)
(* Precertificate Signing Certificate and an Authority Key Identifier      *)
(* extension is present in the TBSCertificate, the corresponding extension *)
(* must also be present in the Precertificate Signing Certificate -- in    *)
(* this case, the TBSCertificate also has its Authority Key Identifier     *)
(* changed to match the final issuer."                                     *)
(***************************************************************************)
EXTENDS Naturals, Sequences, FiniteSets, TLC

Ids == {"POISON", "SCTLIST", "AKI", "SAN", "BC", "EKU", "U1", "U2"}

None == [k |-> "none"]
Err(why) == [k |-> "err", why |-> why]
IsErr(x) == x.k = "err"

Ext(id, crit, val) == [id |-> id, crit |-> crit, val |-> val]

(* ---------- sequences ---------- *)
Positions(exts, id) == {i \in DOMAIN exts : exts[i].id = id}
Count(exts, id) == Cardinality(Positions(exts, id))
First(exts, id) == CHOOSE i \in Positions(exts, id) : \A j \in Positions(exts, id) : i <= j
Delete(s, i) == SubSeq(s, 1, i - 1) \o SubSeq(s, i + 1, Len(s))
Keep(s, P(_)) == SelectSeq(s, P)

(* ---------- DER primitives (X.690): what "every other DER byte ... untouched" means for a field that is
              re-encoded rather than copied ---------- *)
\* An integer is [neg, mag]: its sign and the base-256 digits of its magnitude, most significant first, without
\* leading zeros (<<>> is zero; there is no negative zero).  TLC's integers are 32 bit, serial numbers are up to
\* 20 (in the wild 21) octets, so the arithmetic is on digit strings.
IntV(neg, mag) == [neg |-> neg, mag |-> mag]
IsIntV(v) == (v.mag # <<>> => v.mag[1] # 0) /\ (v.mag = <<>> => ~v.neg)
RECURSIVE Strip(_)
Strip(s) == IF s # <<>> /\ Head(s) = 0 THEN Strip(Tail(s)) ELSE s
\* s + 1 modulo 256^Len(s)
RECURSIVE Inc(_)
Inc(s) == IF s = <<>> THEN <<>>
          ELSE IF s[Len(s)] < 255 THEN [s EXCEPT ![Len(s)] = @ + 1]
          ELSE Append(Inc(SubSeq(s, 1, Len(s) - 1)), 0)
\* two's complement over Len(s) octets: 256^Len(s) - s (modulo 256^Len(s))
Complement(s) == Inc([i \in DOMAIN s |-> 255 - s[i]])
\* X.690 8.3.2: "the bits of the first octet and bit 8 of the second octet shall not all be ones and shall not all
\* be zero" - the contents are the shortest two's complement form
IsMinimalInt(o) == /\ Len(o) >= 1
                   /\ Len(o) >= 2 => ~(o[1] = 0 /\ o[2] < 128) /\ ~(o[1] = 255 /\ o[2] >= 128)
\* X.690 8.3.3: the contents octets are the two's complement binary number equal to the integer value
IntValue(o) == IF o[1] < 128 THEN IntV(FALSE, Strip(o)) ELSE IntV(TRUE, Strip(Complement(o)))
\* the encoding: a non-negative number whose leading digit has bit 8 set needs a 00 octet in front (0x80 is
\* 00 80), a negative one is the complement of its magnitude over as many octets, with an ff octet in front unless
\* bit 8 of the complement is set already.  -2^(8k-1) is where the magnitude has bit 8 set and the complement has it
\* too (magnitude 80 00..00, contents 80 00..00: k octets, not k+1).
IntOctets(v) ==
  IF ~v.neg THEN (IF v.mag = <<>> THEN <<0>> ELSE IF v.mag[1] >= 128 THEN <<0>> \o v.mag ELSE v.mag)
  ELSE LET t == Complement(v.mag) IN IF t[1] >= 128 THEN t ELSE <<255>> \o t
\* the laws: the encoding is minimal, decodes to the value, and every minimal string is the encoding of its value -
\* so a parser followed by an encoder reproduces the contents octets of a canonical INTEGER, whatever its sign
IntEncodingLaw(v) == IsIntV(v) => IsMinimalInt(IntOctets(v)) /\ IntValue(IntOctets(v)) = v
IntRoundTripLaw(o) == IsMinimalInt(o) => IsIntV(IntValue(o)) /\ IntOctets(IntValue(o)) = o

\* digits of n > 0 in base b, most significant first, none for 0
RECURSIVE Digits(_, _)
Digits(n, b) == IF n = 0 THEN <<>> ELSE Append(Digits(n \div b, b), n % b)
RECURSIVE Number(_, _)
Number(d, b) == IF d = <<>> THEN 0 ELSE Number(SubSeq(d, 1, Len(d) - 1), b) * b + d[Len(d)]
\* X.690 8.1.3 + 10.1: definite form, "encoded in the minimum number of octets": short form below 128, else
\* 80+k followed by the k digits
LenOctets(n) == IF n < 128 THEN <<n>> ELSE LET d == Digits(n, 256) IN <<128 + Len(d)>> \o d
LenValue(o) == IF o[1] < 128 THEN o[1] ELSE Number(Tail(o), 256)
IsMinimalLen(o) == IF o[1] < 128 THEN Len(o) = 1
                   ELSE /\ Len(o) = 1 + (o[1] - 128) /\ Len(o) >= 2 /\ o[2] # 0 /\ (Len(o) = 2 => o[2] >= 128)
LenLaw(n) == IsMinimalLen(LenOctets(n)) /\ LenValue(LenOctets(n)) = n
\* X.690 8.19.2: a subidentifier is base 128, bit 8 set on all but the last octet, "the leading octet ... shall not
\* have the value 0x80"
ArcOctets(a) == IF a = 0 THEN <<0>> ELSE LET d == Digits(a, 128) IN [i \in DOMAIN d |-> IF i < Len(d) THEN d[i] + 128 ELSE d[i]]
ArcValue(o) == Number([i \in DOMAIN o |-> o[i] % 128], 128)
IsMinimalArc(o) == /\ Len(o) >= 1 /\ o[1] # 128 /\ o[Len(o)] < 128 /\ \A i \in 1..(Len(o) - 1) : o[i] >= 128
ArcLaw(a) == IsMinimalArc(ArcOctets(a)) /\ ArcValue(ArcOctets(a)) = a

(* ---------- RemoveExt: x509.RemoveSCTList / RemoveCTPoison ---------- *)
\* "This function will fail if there is not exactly 1 extension of the type" - and RFC 5280 4.2:
\* "A certificate MUST NOT include more than one instance of a particular extension."
RemoveExt(t, id) ==
  IF Count(t.exts, id) = 0 THEN Err("absent")
  ELSE IF Count(t.exts, id) > 1 THEN Err("multiple")
  ELSE [t EXCEPT !.exts = Delete(@, First(@, id))]

(* ---------- the pre-issuer rewrite (RFC 6962 3.2) ---------- *)
\* pre = [k |-> "pre", issuer, aki, eku]: the Precertificate Signing Certificate: its issuer name (the
\* name of the CA that will issue the final certificate), the value of its AKI extension ("none" if it
\* has none) and whether it carries the CT extended key usage.
HasAKI(t) == Count(t.exts, "AKI") > 0

\* Which clause applies.  Only "AkiReplaced" is prescribed by the RFC; the other three record what the
\* code under test does for inputs on which the RFC is silent (AkiAbsent) or which it forbids
\* (AkiDropped: "the corresponding extension must also be present in the Precertificate Signing
\* Certificate") or does not foresee (AkiAppended).
AkiClause(t, pre) ==
  IF pre = None THEN "Direct"
  ELSE IF HasAKI(t) /\ pre.aki # "none" THEN "AkiReplaced"
  ELSE IF HasAKI(t) THEN "AkiDropped"
  ELSE IF pre.aki # "none" THEN "AkiAppended"
  ELSE "AkiAbsent"

\* RFC: value changed to match the final issuer; position and criticality stay.  The value is the pre-issuer's
\* extension value as it stands (an opaque token here: keyIdentifier only, with authorityCertIssuer and
\* authorityCertSerialNumber, or those two alone - the final certificate is issued by the same CA and carries
\* that very value), not a re-encoding of parts of it.
AkiReplaced(exts, pre) == [i \in DOMAIN exts |-> IF i = First(exts, "AKI") THEN [exts[i] EXCEPT !.val = pre.aki] ELSE exts[i]]
\* code: the precertificate's AKI is deleted when the pre-issuer has none
AkiDropped(exts) == Delete(exts, First(exts, "AKI"))
\* code: a non-critical AKI with the pre-issuer's value is appended after all other extensions
AkiAppended(exts, pre) == Append(exts, Ext("AKI", FALSE, pre.aki))

Rewrite(t, pre) ==
  LET cl == AkiClause(t, pre)
      exts == CASE cl = "AkiReplaced" -> AkiReplaced(t.exts, pre)
                [] cl = "AkiDropped" -> AkiDropped(t.exts)
                [] cl = "AkiAppended" -> AkiAppended(t.exts, pre)
                [] OTHER -> t.exts
  IN [t EXCEPT !.issuer = pre.issuer, !.exts = exts]

(* ---------- BuildPrecertTBS ---------- *)
\* a pre-issuer is only one if it carries the CT EKU (RFC 6962 3.1: "a special-purpose [EKU: Certificate
\* Transparency, OID 1.3.6.1.4.1.11129.2.4.4] Precertificate Signing Certificate")
BuildPrecertTBS(t, pre) ==
  LET r == RemoveExt(t, "POISON") IN
  IF IsErr(r) THEN r
  ELSE IF pre = None THEN r
  ELSE IF ~pre.eku THEN Err("noCTEKU")
  ELSE Rewrite(r, pre)

(* ---------- what the CA does: the final certificate ---------- *)
\* the poison is replaced in place by the SCT list (non-critical, value `scts`); when a pre-issuer signed
\* the precertificate, the final certificate is issued by the pre-issuer's issuer.
Final(t, pre, scts) ==
  IF Count(t.exts, "POISON") # 1 THEN Err("noSinglePoison")
  ELSE LET i == First(t.exts, "POISON")
           t1 == [t EXCEPT !.exts[i] = Ext("SCTLIST", FALSE, scts)]
       IN IF pre = None THEN t1 ELSE Rewrite(t1, pre)

(* ---------- log entries (RFC 6962 3.2 PreCert: issuer_key_hash, tbs_certificate) ---------- *)
\* chain = <<precert, issuer, issuer's issuer>> given by the key each certificate carries; the key hash is
\* that of the *final* issuer: chain[2] normally, chain[3] when chain[2] is a pre-issuer.
Entry(ikh, tbs) == [k |-> "entry", ikh |-> ikh, tbs |-> tbs]
PrecertRouteEntry(t, pre, issuerKey, issuerIssuerKey) ==
  LET isPre == pre # None /\ pre.eku
      b == BuildPrecertTBS(t, IF isPre THEN pre ELSE None) IN
  IF IsErr(b) THEN b ELSE Entry(IF isPre THEN issuerIssuerKey ELSE issuerKey, b)
EmbeddedRouteEntry(final, finalIssuerKey) ==
  LET b == RemoveExt(final, "SCTLIST") IN
  IF IsErr(b) THEN b ELSE Entry(finalIssuerKey, b)

\* "The log signed that precertificate".  A log is [name, scheme, compliant]: the signature scheme of its key
\* (RFC 6962 2.1.4: ECDSA on P-256 or RSA of at least 2048 bits - `compliant`; other curves / sizes exist and a
\* verifier for them needs the caller's explicit opt-in, property C05).  An SCT is [log, over, form]: `over` is the
\* entry the log signed, `form` is how the octets of the signature value arrive in the opaque signature field.
\* Named clause TrailingOctetsIgnored (the wording of property C05, spec SigVerify.tla FormOK: "bytes trailing a
\* complete DER-encoded ECDSA or DSA value are ignored"): a complete DER Ecdsa-Sig-Value followed by further octets
\* is still that log's signature over that entry, whatever and however many the octets are - logs that pad the field
\* exist.  Nothing else is: octets INSIDE the SEQUENCE after s, a non-minimal INTEGER or length (not DER), a cut-off
\* value; and an RSASSA-PKCS1-v1_5 value is a string of exactly the modulus' length, so an RSA value with an octet
\* more or less is not one.
ExactForms == {"exact"}
TrailingForms == {"trail00", "trail0000", "trailFF", "trail32", "trailSig"}
BrokenForms == {"inner", "padded", "longlen", "cut"}
SigForms(scheme) == IF scheme = "ecdsa" THEN ExactForms \cup TrailingForms \cup BrokenForms ELSE ExactForms \cup {"trail00", "cut"}
SigFormOK(form, scheme) == form \in ExactForms \/ (scheme = "ecdsa" /\ form \in TrailingForms)
\* the SCT verifies for an entry under a log's key iff that log signed that entry and delivered a signature value
Verifies(sct, log, entry) == ~IsErr(entry) /\ sct.log = log.name /\ sct.over = entry /\ SigFormOK(sct.form, log.scheme)
\* ctutil.VerifySCT builds the verifier itself (no opt-in unless the process-wide switch is set)
VerifySCT(sct, log, entry, optIn) == (log.compliant \/ optIn) /\ Verifies(sct, log, entry)

(* ---------- laws ---------- *)
OtherFieldsEqual(a, b) == /\ a.serial = b.serial /\ a.sig = b.sig /\ a.validity = b.validity
                          /\ a.subject = b.subject /\ a.key = b.key /\ a.uid = b.uid /\ a.xf = b.xf

\* 0 or 2 occurrences -> error, exactly one -> success
ExactlyOne(t, id) == IsErr(RemoveExt(t, id)) <=> Count(t.exts, id) # 1

\* the result is the input with exactly one element of exts deleted, that element being the targeted one;
\* every other element and field identical and in order (stated without reference to Delete)
OthersUntouched(t, id) ==
  LET r == RemoveExt(t, id) IN
  IsErr(r) \/
    /\ OtherFieldsEqual(t, r) /\ r.issuer = t.issuer
    /\ Len(r.exts) = Len(t.exts) - 1
    /\ \E i \in DOMAIN t.exts :
          /\ t.exts[i].id = id
          /\ \A j \in 1..(i - 1) : r.exts[j] = t.exts[j]
          /\ \A j \in i..Len(r.exts) : r.exts[j] = t.exts[j + 1]
    /\ Count(r.exts, id) = 0

\* BuildPrecertTBS touches nothing but the poison, the issuer and the AKI, and the latter two only with a pre-issuer
NotAKI(e) == e.id # "AKI"
NotAKINorPoison(e) == e.id # "AKI" /\ e.id # "POISON"
BuildTouchesOnly(t, pre) ==
  LET r == BuildPrecertTBS(t, pre) IN
  IsErr(r) \/
    /\ OtherFieldsEqual(t, r)
    /\ IF pre = None THEN r = RemoveExt(t, "POISON")
       ELSE /\ r.issuer = pre.issuer
            /\ Keep(r.exts, NotAKI) = Keep(t.exts, NotAKINorPoison)
            /\ (AkiClause(t, pre) = "AkiReplaced" =>
                   /\ Len(r.exts) = Len(t.exts) - 1
                   /\ \A i \in DOMAIN r.exts : r.exts[i].id = "AKI" =>
                         r.exts[i].val = pre.aki /\ \E j \in DOMAIN t.exts : t.exts[j].id = "AKI" /\ t.exts[j].crit = r.exts[i].crit)

\* both routes: deleting the SCT list from the final certificate gives the logged TBS
Commutes(t, pre, scts) ==
  (Count(t.exts, "SCTLIST") = 0 /\ ~IsErr(BuildPrecertTBS(t, pre))) =>
      RemoveExt(Final(t, pre, scts), "SCTLIST") = BuildPrecertTBS(t, pre)

\* ... hence the same entry, hence an embedded SCT verifies exactly when the log signed that precertificate
SameEntry(t, pre, scts, caKey, preKey) ==
  LET direct == pre = None
      pr == IF direct THEN PrecertRouteEntry(t, None, caKey, "rootKey") ELSE PrecertRouteEntry(t, pre, preKey, caKey)
      er == EmbeddedRouteEntry(Final(t, pre, scts), caKey) IN
  (Count(t.exts, "SCTLIST") = 0 /\ ~IsErr(pr) /\ (direct \/ pre.eku)) =>
      /\ pr = er
      /\ \A over \in {pr, Entry("otherKey", pr.tbs), Entry(pr.ikh, [pr.tbs EXCEPT !.serial = "other"])} :
            LET log == [name |-> "L", scheme |-> "ecdsa", compliant |-> TRUE] IN
            Verifies([log |-> "L", over |-> over, form |-> "exact"], log, er) <=> over = pr

\* what the forms, the schemes and the key policy do to that, for any two entries (it does not depend on what is
\* inside an entry): exactly the log's own signature values over exactly this entry verify, and a verifier for a
\* key outside RFC 6962 2.1.4 exists only under the opt-in
SctFormLaw(e1, e2) ==
  \A entry \in {e1, e2}, over \in {e1, e2}, scheme \in {"ecdsa", "rsa"}, compliant \in BOOLEAN :
    LET log == [name |-> "L", scheme |-> scheme, compliant |-> compliant] IN
    \A form \in SigForms(scheme), optIn \in BOOLEAN :
      LET sct == [log |-> "L", over |-> over, form |-> form] IN
      /\ Verifies(sct, log, entry) <=> (over = entry /\ SigFormOK(form, scheme))
      /\ VerifySCT(sct, log, entry, optIn) <=> (Verifies(sct, log, entry) /\ (compliant \/ optIn))
      /\ ~Verifies(sct, [log EXCEPT !.name = "X"], entry)
      /\ ~Verifies(sct, log, Err("absent"))
      /\ (form \in TrailingForms /\ scheme = "ecdsa") => (Verifies(sct, log, entry) <=> Verifies([sct EXCEPT !.form = "exact"], log, entry))

(* ---------- SCT lists (RFC 6962 3.3: opaque SerializedSCT<1..2^16-1>; sct_list<1..2^16-1>) ---------- *)
\* An SCT is a non-empty sequence of tokens (bytes, naturals); a list is framed by a length token per element and one
\* for the whole.  Parse is the inverse partial function.
RECURSIVE Concat(_)
Concat(ss) == IF ss = <<>> THEN <<>> ELSE Head(ss) \o Concat(Tail(ss))
Framed(s) == <<Len(s)>> \o s
Embed(l) == Framed(Concat([i \in DOMAIN l |-> Framed(l[i])]))
\* ParseItems returns [ok, items]
RECURSIVE ParseItems(_)
ParseItems(b) ==
  IF b = <<>> THEN [ok |-> TRUE, items |-> <<>>]
  ELSE IF Head(b) = 0 \/ Head(b) > Len(b) - 1 THEN [ok |-> FALSE, items |-> <<>>]
  ELSE LET rest == ParseItems(SubSeq(b, 2 + Head(b), Len(b))) IN
       [ok |-> rest.ok, items |-> <<SubSeq(b, 2, 1 + Head(b))>> \o rest.items]
Parse(b) ==
  IF b = <<>> \/ Len(b) = 1 THEN Err("framing")
  ELSE IF Head(b) # Len(b) - 1 THEN Err("framing")
  ELSE LET r == ParseItems(Tail(b)) IN IF r.ok THEN r.items ELSE Err("framing")
SCTListRoundTrip(l) == Parse(Embed(l)) = l

(* ---------- reading a certificate back: entry points, bundles, what was read before ---------- *)
\* "The SCT list read back from a parsed certificate equals, element for element, the list that was embedded" - by
\* whichever entry point the certificate was parsed, and whatever was parsed before it or next to it.  What a reader
\* reports about a certificate is a function of that certificate's own octets (clause OwnOctetsOnly below).
\*
\* Why this needs saying.  RFC 5280 4.1 makes four components of a TBSCertificate optional - version [0] DEFAULT v1,
\* issuerUniqueID [1], subjectUniqueID [2], extensions [3] - and 4.1.1.2 the parameters of an AlgorithmIdentifier
\* (absent for ECDSA signatures and Ed25519 keys, NULL for RSA).  X.680 25: an absent OPTIONAL component has NO value,
\* an absent DEFAULT component has the default value.  A decoder that fills a structure writes the components that
\* are present; the value of an absent one is "absent", NOT whatever the structure held before.  A certificate, as far
\* as reading goes, is therefore the record of its optional parts, each present with a value or absent:
Some(v) == [has |-> TRUE, v |-> v]
Nothing == [has |-> FALSE]
OptParts == {"version", "iuid", "suid", "exts", "sigParams", "keyParams"}
\* A readable certificate is [ver, uid, xf, exts, sig, key]: ver is "v1" (no version element), "v2" or "v3"; uid, xf,
\* exts as in a TBS above (the value of an SCT list extension NAMES the embedded list); sig and key are the key types
\* of the signer and of the subject.
ParamsOf(keyType) == CASE keyType = "rsa2048" -> Some("NULL")
                       [] keyType = "ed25519" -> Nothing
                       [] OTHER -> Some("curve")              \* id-ecPublicKey carries the named curve
SigParamsOf(keyType) == IF keyType = "rsa2048" THEN Some("NULL") ELSE Nothing   \* ecdsa-with-SHA*, Ed25519: absent
PartsOf(c) ==
  [version   |-> IF c.ver = "v1" THEN Nothing ELSE Some(c.ver),
   iuid      |-> IF c.uid \in {"iss", "both"} THEN Some("iuid") ELSE Nothing,
   suid      |-> IF c.uid \in {"subj", "both"} THEN Some("suid") ELSE Nothing,
   exts      |-> IF c.xf THEN Some(c.exts) ELSE Nothing,
   sigParams |-> SigParamsOf(c.sig),
   keyParams |-> ParamsOf(c.key)]
\* Decoding c into a structure that holds `target`.  carry = FALSE is the specification.  carry = TRUE is the reader
\* the clause excludes: it leaves the components that c does not have as they were (a scratch structure, a pooled
\* object, a result cache that is keyed too coarsely, a field that is appended to instead of assigned).
ZeroTarget == [p \in OptParts |-> Nothing]
DecodeInto(target, c, carry) ==
  LET own == PartsOf(c) IN
  [p \in OptParts |-> IF own[p].has THEN own[p] ELSE IF carry THEN target[p] ELSE Nothing]
\* What the reader reports from a decoded structure: the version (DEFAULT v1), which unique identifiers there are, the
\* extension identifiers in order, the embedded SCT list ("none" if there is no SCT list extension - a certificate
\* has at most one, RFC 5280 4.2), whether there are algorithm parameters.
Reported(d) ==
  LET exts == IF d.exts.has THEN d.exts.v ELSE <<>> IN
  [version   |-> IF d.version.has THEN d.version.v ELSE "v1",
   iuid      |-> d.iuid.has,
   suid      |-> d.suid.has,
   exts      |-> [i \in DOMAIN exts |-> exts[i].id],
   sct       |-> IF Count(exts, "SCTLIST") = 0 THEN "none" ELSE exts[First(exts, "SCTLIST")].val,
   sigParams |-> d.sigParams.has,
   keyParams |-> IF d.keyParams.has THEN d.keyParams.v ELSE "none"]
\* the specification of reading ONE certificate: from nothing but itself
Read(c) == Reported(DecodeInto(ZeroTarget, c, FALSE))
\* a reader working through a sequence of certificates (the certificates of one bundle, or the certificates handed
\* to consecutive calls), the structure of the previous one being `target`
RECURSIVE ReadAll(_, _, _)
ReadAll(target, cs, carry) ==
  IF cs = <<>> THEN <<>>
  ELSE LET d == DecodeInto(target, Head(cs), carry) IN <<Reported(d)>> \o ReadAll(d, Tail(cs), carry)
\* Clause OwnOctetsOnly: as many results as certificates, in order, and the i-th is what the i-th certificate reads
\* alone.  `carry` is a parameter so that the model checker can be shown the reader the clause excludes (it must
\* refute the clause for it: the clause is not vacuous on the case space).
OwnOctetsOnly(cs, carry) ==
  LET out == ReadAll(ZeroTarget, cs, carry) IN
  /\ Len(out) = Len(cs)
  /\ \A i \in DOMAIN cs : out[i] = Read(cs[i])
\* the reported fields in which the excluded reader would differ at position i (which cases can tell the two apart)
ReportFields == {"version", "iuid", "suid", "exts", "sct", "sigParams", "keyParams"}
CarriedAt(cs, i) == LET got == ReadAll(ZeroTarget, cs, TRUE)[i]  own == Read(cs[i]) IN {f \in ReportFields : got[f] # own[f]}

\* The entry points through which a certificate is read.  plural: one call takes the whole sequence (DER certificates
\* concatenated without padding / PEM blocks one after the other) and returns one result per certificate; otherwise
\* the certificates go to consecutive calls.  input: the certificate or only its TBSCertificate; armor: DER, PEM or
\* the entry of a Merkle tree leaf; view: everything the reader reports, or the SCT list alone.
EP(plural, input, armor, view) == [plural |-> plural, input |-> input, armor |-> armor, view |-> view]
EntryPoints ==
  [ParseCertificate            |-> EP(FALSE, "cert", "der", "all"),
   ParseCertificates           |-> EP(TRUE,  "cert", "der", "all"),
   ParseTBSCertificate         |-> EP(FALSE, "tbs",  "der", "all"),
   CertificateFromPEM          |-> EP(FALSE, "cert", "pem", "all"),
   CertificatesFromPEM         |-> EP(TRUE,  "cert", "pem", "all"),
   ParseSCTsFromCertificate    |-> EP(FALSE, "cert", "der", "scts"),
   ParseSCTsFromCertificatePEM |-> EP(FALSE, "cert", "pem", "scts"),
   \* the certificate of a log entry: MerkleTreeLeaf.X509Certificate / .Precertificate (armor "leaf": the octets sit in
   \* the TimestampedEntry of a leaf)
   LeafX509Certificate         |-> EP(FALSE, "cert", "leaf", "all"),
   LeafPrecertificate          |-> EP(FALSE, "tbs",  "leaf", "all")]
View(v, r) == IF v = "scts" THEN [sct |-> r.sct] ELSE r
\* the calls an entry point needs for the sequence cs (each call's argument is a sequence of positions of cs) ...
CallsOf(e, cs) == IF EntryPoints[e].plural THEN <<[i \in DOMAIN cs |-> i]>> ELSE [i \in DOMAIN cs |-> <<i>>]
\* ... and what it must report for position i, however the calls are cut
ResultAt(e, cs, i) == View(EntryPoints[e].view, Read(cs[i]))
\* every position is handed over exactly once, in order
CallsCover(e, cs) == Concat(CallsOf(e, cs)) = [i \in DOMAIN cs |-> i]
=============================================================================
