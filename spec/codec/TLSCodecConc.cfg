\* the sound disciplines: FunctionLaw is an invariant of every round
CONSTANTS
  Callers = {"g1", "g2"}
  Types = {"t1", "t2"}
  Args = {"a1", "a2"}
  NCells = 2
  Disciplines = {"stateless", "fill-then-publish"}
INIT Init
NEXT Next
INVARIANTS TypeOK FunctionLaw Returned
CHECK_DEADLOCK FALSE
