\* certificate lists and armour: every (entry point, armour, payload) case of the thorough tier (three entries over thirteen representatives, every pair of entry / list extensions); -workers 1 (LCASE export)
CONSTANTS
  EntryPolicy = "collect"
  BlockGuard = TRUE
  Deep = TRUE
  Cases <- MCCases
INIT LInit
NEXT LNext
INVARIANTS LTypeOK Total ListCoherent WarningsKeepObject WarningsReported FatalSurfaces OpaqueIsBinary NoFindingBeforeDER MachineMeetsVerdict ArmourTransparent NotABlockIsFatal ExportListCase
CHECK_DEADLOCK FALSE
