--------------------------- MODULE MCRFC6962Wire ---------------------------
(***************************************************************************)
(* Case enumeration for RFC6962Wire (C04): every structure with field      *)
(* values at the boundaries (DESIGN.md C04), the expected encodings, and   *)
(* for each encoding the mutated byte strings with the expected outcome of *)
(* the raw decoder and of the complete parses.  One TLC state per case;    *)
(* the model-level laws are invariants; every state is exported as a CASE  *)
(* record that harness/c04 executes against the repository's types and     *)
(* functions.                                                              *)
(***************************************************************************)
EXTENDS RFC6962Wire, Mutations, Json, TLC

CONSTANT Tier     \* "quick" | "thorough"
VARIABLE c

Pay(n, id) == IF n = 0 THEN <<>> ELSE <<Fill(n, id)>>
Idx(kind, p1, p2, p3, p4, p5) == [kind |-> kind, p1 |-> p1, p2 |-> p2, p3 |-> p3, p4 |-> p4, p5 |-> p5]
Thorough == Tier = "thorough"

(* ---------- boundary values ---------- *)
TS == << <<>>, <<1>>, <<1, 0, 0, 0, 0>>, <<128, 0, 0, 0, 0, 0, 0, 0>>, MaxNum(8) >>     \* 0, 1, 2^32, 2^63, 2^64-1
CertLens == <<1, 255, 256, 65535, 65536, 16777215, 0, 16777216>>
ExtLens == <<0, 1, 255, 256, 65535, 65536>>
EntryTypes == <<0, 1>>
\* variants of a leaf: 0 as is, 1 version 1, 2 leaf type 1, 3..5 entry type 2 / 32768 / 65535
VarEtype(e, var) == CASE var = 3 -> 2 [] var = 4 -> 32768 [] var = 5 -> 65535 [] OTHER -> EntryTypes[e]
HashCodes == <<0, 1, 2, 3, 4, 5, 6, 7, 255>>
SigCodes == <<0, 1, 2, 3, 4, 255>>
SigLens == <<0, 1, 71, 255, 256, 65535, 65536>>
ChainPatterns == << <<>>, <<1>>, <<255>>, <<256, 1>>, <<65535, 65536>>, <<300, 1, 255>>, <<0>>, <<5, 0>>,
                    <<16777212>>, <<16777213>>, <<8388606, 8388603>>, <<8388606, 8388604>> >>
PreLens == <<1, 256, 65536, 0>>
\* serialized-SCT lengths per list: totals 3, 49, 171, 65335, 65336 (F11), 65535, 65536, 0, and two-element splits
ListPatterns == << <<1>>, <<47>>, <<47, 120>>, <<65333>>, <<65334>>, <<65533>>, <<65534>>, <<>>, <<0>>, <<47, 0>>,
                   <<30000, 35331>>, <<30000, 35332>>, <<30000, 35531>>, <<30000, 35532>> >>
\* lists of real SCTs: extension lengths chosen so that the list body is 65335 / 65336 / 65535 bytes (an SCT with a
\* 71-byte signature and e extension bytes is 118 + e bytes, its list element 120 + e)
RealLists == << <<0>>, <<0, 5>>, <<65215>>, <<65216>>, <<65415>>, <<30000, 35095>>, <<30000, 35096>>, <<30000, 35295>> >>
RealTotals == <<120, 245, 65335, 65336, 65535, 65335, 65336, 65535>>

(* ---------- families ---------- *)
LeafCases ==
       {Idx("leaf", t, e, cl, el, 0) : t \in 1..5, e \in 1..2, cl \in 1..3, el \in 1..4}
  \cup {Idx("leaf", 2, e, cl, el, 0) : e \in 1..2, cl \in {4, 5, 7}, el \in {1, 5}}
  \cup {Idx("leaf", 2, e, cl, 2, 0) : e \in 1..2, cl \in {6, 8}}                      \* 2^24-1 and 2^24 bytes
  \cup {Idx("leaf", 2, e, 2, el, 0) : e \in 1..2, el \in 5..6}
  \cup {Idx("leaf", 3, e, 2, 2, var) : e \in 1..2, var \in 1..5}
  \cup (IF Thorough THEN {Idx("leaf", t, e, cl, el, var) : t \in 1..5, e \in 1..2, cl \in {1, 2, 3, 4, 5, 7}, el \in 1..6, var \in 0..5} ELSE {})
ChainCases == {Idx("chain", pat, pre, pl, 0, 0) : pat \in 1..Len(ChainPatterns), pre \in 0..1, pl \in 1..Len(PreLens)}
DSCases == {Idx("ds", h, s, 3, 0, 0) : h \in 1..Len(HashCodes), s \in 1..Len(SigCodes)}
       \cup {Idx("ds", 5, 4, sl, 0, 0) : sl \in 1..Len(SigLens)}
       \cup (IF Thorough THEN {Idx("ds", h, s, sl, 0, 0) : h \in 1..Len(HashCodes), s \in 1..Len(SigCodes), sl \in 1..Len(SigLens)} ELSE {})
SCTCases == {Idx("sct", v, t, el, sl, 0) : v \in {0, 1, 255}, t \in 1..5, el \in 1..2, sl \in {3}}
       \cup {Idx("sct", 0, 2, el, sl, 0) : el \in 1..6, sl \in {1, 3, 6}}
       \cup (IF Thorough THEN {Idx("sct", v, t, el, sl, 0) : v \in {0, 1, 255}, t \in 1..5, el \in 1..6, sl \in 1..7} ELSE {})
STHCases == {Idx("sth", v, t, sz, 0, 0) : v \in {0, 1}, t \in 1..5, sz \in 1..5}
\* fixed-size base64 fields: empty, one byte, short by one, exact, long by one / two, much longer (SHA-384 / SHA-512 sized)
FixedLens == <<0, 1, 31, 32, 33, 34, 48, 64>>
OddLens == {0, 1, 31, 33, 34, 48, 64}
HashCases == {Idx("hash", n, wf, t, 0, 0) : n \in 1..Len(FixedLens), wf \in 0..1, t \in {2, 5}}
\* lists of real SCTs (no extensions) of which some are damaged: the list framing stays that of a valid list
DamagedLists == << <<"trail">>, <<"trunc">>, <<"ok", "trail">>, <<"trunc", "ok">>, <<"ok", "siglen-1">>, <<"siglen+1">>,
                   <<"ok", "ok", "extlen+1">>, <<"ok", "ok", "ok">> >>
ListCases == {Idx("sctlist", pat, 0, 0, 0, 0) : pat \in 1..Len(ListPatterns)}
        \cup {Idx("sctlist", pat, 1, 0, 0, 0) : pat \in 1..Len(RealLists)}
        \cup {Idx("sctlist", pat, 2, 0, 0, 0) : pat \in 1..Len(DamagedLists)}
BigPattern(pat) == pat >= 9
\* the builders of the stored leaf: p1 builder, p2 chain pattern (chain builders), p3 precert, p4 length of the
\* (pre-)certificate, p5 hash argument (hash builders): 0 absent (nil), k > 0 HashLens[k] bytes
BuilderNames == <<"ExtraDataForChain", "BuildLogLeaf", "ExtraDataForChainHash", "BuildLogLeafWithChainHash">>
HashLens == <<32, 0, 1, 255, 256, 257, 48>>
LogLeafCases == {Idx("logleaf", b, x.p1, x.p2, x.p3, 0) : b \in 1..2,
                   x \in {y \in ChainCases : IF BigPattern(y.p1) THEN y.p3 = 1 ELSE (y.p2 = 1 \/ y.p3 = 1)}}
           \cup {Idx("logleaf", b, 1, pre, pl, h) : b \in 3..4, pre \in 0..1, pl \in IF Thorough THEN 1..Len(PreLens) ELSE {1, 2, 4}, h \in 0..Len(HashLens)}
\* the same builders as the log front end reaches them: p1 mode, p2 precert, p3 certificates after the submitted one
\* in the validated chain (0: a lone trusted root, which cannot be a precertificate)
FrontEndModeNames == <<"direct", "indirect">>
FrontEndCases == {Idx("frontend", m, pre, n, 0, 0) : m \in 1..2, pre \in 0..1, n \in {0, 1, 3}} \ {Idx("frontend", m, 1, 0, 0, 0) : m \in 1..2}
Cases == LeafCases \cup {x \in ChainCases : IF BigPattern(x.p1) THEN x.p3 = 1 ELSE (x.p2 = 1 \/ x.p3 = 1)} \cup DSCases \cup SCTCases \cup STHCases \cup ListCases \cup HashCases
         \cup LogLeafCases \cup FrontEndCases

(* ---------- mutations: all literal bytes of small structures, the header bytes of big ones ---------- *)
IsBig(e) == BLen(e) > 100000
Muts(e, nlits) == MutationsOf(e, IF IsBig(e) THEN 0 ELSE 12, LitsBetween(e, IF IsBig(e) THEN nlits - 5 ELSE 1, nlits))
RawInputs(raw) == IF raw.ok THEN {In("raw", 0, 0, raw.b)} ELSE {}

(* ---------- leaf ---------- *)
LeafOf(x) ==
  LET et == VarEtype(x.p2, x.p5) IN
  [version |-> IF x.p5 = 1 THEN 1 ELSE 0, leaf_type |-> IF x.p5 = 2 THEN 1 ELSE 0, ts |-> TS[x.p1],
   entry |-> [etype |-> et, cert |-> Pay(CertLens[x.p3], 17 + x.p3), ikh |-> Pay(32, 99)],
   ext |-> Pay(ExtLens[x.p4], 5 + x.p4)]
\* extra data that goes with a leaf of entry type et when the entry parsers are exercised
GoodExtra(et) == IF et = PrecertEntryType THEN EncPrecertChainEntry(Pay(40, 1), <<Pay(50, 2)>>).b
                 ELSE EncCertificateChain(<<Pay(50, 2), Pay(60, 3)>>).b
LeafVersionOf(b) == IF BLen(b) >= 1 THEN Expand(Take(b, 1))[1] ELSE 0
LeafRec(x) ==
  LET l == LeafOf(x)
      rfc == EncMerkleTreeLeaf(l)
      impl == Enc(ImplMerkleTreeLeaf, ImplLeafVal(l))           \* JSONEntry deviation: differs from rfc for type 32768 only
      raw == IF impl.ok THEN Fail ELSE RawEnc(ImplMerkleTreeLeaf, ImplLeafVal(l))
      extra == GoodExtra(l.entry.etype)
      ins == IF impl.ok THEN Muts(impl.b, IF IsBig(impl.b) THEN 17 ELSE 22) ELSE RawInputs(raw) IN
  [kind |-> "leaf", id |-> x, leaf |-> l,
   enc |-> rfc, implenc |-> impl, hashinput |-> LeafHashInput(l),
   sctinput |-> EncSCTSignatureInput(l.version, l.ts, l.entry, l.ext), extra |-> extra,
   extraval |-> Dec(IF l.entry.etype = PrecertEntryType THEN PrecertChainEntry ELSE CertificateChain, extra).v,
   ins |-> {[m |-> i.m, p |-> i.p, d |-> i.d, b |-> i.b,
             dec |-> Dec(ImplMerkleTreeLeaf, i.b),
             \* the entry parsers: complete parse of both parts, known entry type; leaves of other versions unasserted
             parse |-> EntryParse(i.b, extra).ok, asserted |-> LeafVersionOf(i.b) = 0] : i \in ins}]
LeafLaws(r) ==
  /\ r.enc.ok => r.implenc.ok /\ BytesEq(r.enc.b, r.implenc.b)
  /\ RoundTrip(MerkleTreeLeaf, LeafVal(r.leaf)) /\ NoTrailing(MerkleTreeLeaf, LeafVal(r.leaf))
  /\ (r.sctinput.ok => r.leaf.version = 0 /\ r.leaf.entry.etype \in {0, 1} /\ (r.leaf.leaf_type = 0 => r.enc.ok))
  /\ (r.leaf.version = 0 /\ r.enc.ok => r.sctinput.ok)
  /\ \A i \in r.ins : LawEncDec(ImplMerkleTreeLeaf, i.b) /\ (i.parse => i.dec.ok /\ BLen(i.dec.rest) = 0)

(* ---------- chains ---------- *)
ChainOf(x) == [i \in 1..Len(ChainPatterns[x.p1]) |-> Pay(ChainPatterns[x.p1][i], 30 + 11 * i)]
ChainRec(x) ==
  LET certs == ChainOf(x)  pre == Pay(PreLens[x.p3], 77)  isPre == x.p2 = 1
      T == IF isPre THEN PrecertChainEntry ELSE CertificateChain
      v == IF isPre THEN VStruct(<<VBytes(pre), ChainVal(certs)>>) ELSE ChainVal(certs)
      e == Enc(T, v)
      raw == IF e.ok THEN Fail ELSE RawEnc(T, v)
      leaf == EncMerkleTreeLeaf([version |-> 0, leaf_type |-> 0, ts |-> TS[2],
                                 entry |-> [etype |-> IF isPre THEN 1 ELSE 0, cert |-> Pay(33, 8), ikh |-> Pay(32, 99)], ext |-> <<>>]).b
      ins == IF e.ok THEN Muts(e.b, IF IsBig(e.b) THEN 9 ELSE 12) ELSE RawInputs(raw) IN
  [kind |-> "chain", id |-> x, isPre |-> isPre, pre |-> pre, certs |-> certs, enc |-> e, leafinput |-> leaf,
   ins |-> {[m |-> i.m, p |-> i.p, d |-> i.d, b |-> i.b, dec |-> Dec(T, i.b), parse |-> EntryParse(leaf, i.b).ok] : i \in ins}]
ChainLaws(r) ==
  LET T == IF r.isPre THEN PrecertChainEntry ELSE CertificateChain IN
  /\ \A i \in r.ins : LawEncDec(T, i.b) /\ (i.parse <=> (i.dec.ok /\ BLen(i.dec.rest) = 0))
  /\ r.enc.ok => Complete(T, r.enc.b).ok /\ ~Complete(T, r.enc.b \o Trail).ok

(* ---------- DigitallySigned ---------- *)
DSOf(h, s, sl) == [hash |-> HashCodes[h], sigalg |-> SigCodes[s], sig |-> Pay(SigLens[sl], 40 + sl)]
DSRec(x) ==
  LET ds == DSOf(x.p1, x.p2, x.p3)  e == EncDigitallySigned(ds)
      raw == IF e.ok THEN Fail ELSE RawEnc(DigitallySigned, DSVal(ds))
      ins == IF e.ok THEN Muts(e.b, 4) ELSE RawInputs(raw) IN
  [kind |-> "ds", id |-> x, ds |-> ds, enc |-> e,
   ins |-> {[m |-> i.m, p |-> i.p, d |-> i.d, b |-> i.b, dec |-> Dec(DigitallySigned, i.b),
             complete |-> Complete(DigitallySigned, i.b).ok] : i \in ins}]
DSLaws(r) == /\ RoundTrip(DigitallySigned, DSVal(r.ds)) /\ NoTrailing(DigitallySigned, DSVal(r.ds))
             /\ \A i \in r.ins : LawEncDec(DigitallySigned, i.b)

(* ---------- SCT and the add-chain response ---------- *)
SCTOf(v, t, el, sl) == [version |-> v, id |-> Pay(32, 123), ts |-> TS[t], ext |-> Pay(ExtLens[el], 9 + el),
                        ds |-> [hash |-> 4, sigalg |-> 3, sig |-> Pay(SigLens[sl], 50 + sl)]]
SCTRec(x) ==
  LET s == SCTOf(x.p1, x.p2, x.p3, x.p4)  e == EncSCT(s)  dse == EncDigitallySigned(s.ds)
      ins == IF e.ok THEN Muts(e.b, 17) ELSE {}
      \* the JSON message: id of 31 / 32 / 33 bytes, signature field = DigitallySigned and its mutations
      sigs == IF dse.ok THEN MutationsOf(dse.b, 5, LitsBetween(dse.b, 1, 4)) ELSE {}
      msgs == {[sct_version |-> s.version, id |-> Pay(n, 123), timestamp |-> s.ts, extensions |-> s.ext, signature |-> g.b] :
                 n \in {32}, g \in sigs}
              \cup {[sct_version |-> s.version, id |-> Pay(n, 123), timestamp |-> s.ts, extensions |-> s.ext, signature |-> dse.b] :
                 n \in IF dse.ok THEN OddLens ELSE {}} IN
  [kind |-> "sct", id |-> x, sct |-> s, enc |-> e,
   ins |-> {[m |-> i.m, p |-> i.p, d |-> i.d, b |-> i.b, dec |-> Dec(SCT, i.b), complete |-> Complete(SCT, i.b).ok] : i \in ins},
   msgs |-> {[msg |-> m, tosct |-> ToSCT(m)] : m \in msgs}]
SCTLaws(r) == /\ RoundTrip(SCT, SCTVal(r.sct)) /\ NoTrailing(SCT, SCTVal(r.sct)) /\ SCTJsonRoundTrip(r.sct)
              /\ \A i \in r.ins : LawEncDec(SCT, i.b)
              /\ \A m \in r.msgs : m.tosct.ok => BLen(m.msg.id) = 32

(* ---------- STH signature input and the get-sth response ---------- *)
STHRec(x) ==
  LET sth == [version |-> x.p1, ts |-> TS[x.p2], size |-> TS[x.p3], root |-> Pay(32, 200)]
      e == EncSTHSignatureInput(sth)
      \* the structure itself, as the raw codec sees it, for any version
      whole == Enc(TreeHeadSignature, VStruct(<<NumV(sth.version), NumV(TreeHashSig), VNum(sth.ts), VNum(sth.size), VBytes(sth.root)>>))
      dse == EncDigitallySigned([hash |-> 4, sigalg |-> 3, sig |-> Pay(70, 60)])
      ins == Muts(whole.b, 18)
      sigs == IF x.p2 = 2 THEN MutationsOf(dse.b, 5, LitsBetween(dse.b, 1, 4)) ELSE {In("valid", 0, 0, dse.b)}
      msgs == {[tree_size |-> sth.size, timestamp |-> sth.ts, sha256_root_hash |-> sth.root, tree_head_signature |-> g.b] : g \in sigs}
              \cup {[tree_size |-> sth.size, timestamp |-> sth.ts, sha256_root_hash |-> Pay(n, 200), tree_head_signature |-> dse.b] :
                      n \in IF x.p2 = 2 THEN OddLens ELSE {}} IN
  [kind |-> "sth", id |-> x, sth |-> sth, sthinput |-> e, enc |-> whole,
   ins |-> {[m |-> i.m, p |-> i.p, d |-> i.d, b |-> i.b, dec |-> Dec(TreeHeadSignature, i.b)] : i \in ins},
   msgs |-> {[msg |-> m, tosth |-> ToSTH(m)] : m \in msgs}]
STHLaws(r) == /\ (r.sthinput.ok <=> r.sth.version = 0)
              /\ (r.sthinput.ok => BytesEq(r.sthinput.b, r.enc.b) /\ BLen(r.enc.b) = 50)
              /\ \A i \in r.ins : LawEncDec(TreeHeadSignature, i.b)

(* ---------- fixed-size base64 fields: SHA256Hash on its own and inside the SignedTreeHead JSON object ---------- *)
HashRec(x) ==
  LET f == [wf |-> x.p2 = 1, b |-> Pay(FixedLens[x.p1], 160 + x.p1)]
      good == [wf |-> TRUE, b |-> Pay(32, 200)]
      dse == EncDigitallySigned([hash |-> 4, sigalg |-> 3, sig |-> Pay(70, 60)])
      obj(root, id) == [sth_version |-> 0, tree_size |-> TS[x.p3], timestamp |-> TS[2], sha256_root_hash |-> root,
                        tree_head_signature |-> dse.b, log_id |-> id]
      objs == {obj(f, good), obj(good, f), obj(f, f)} IN
  [kind |-> "hash", id |-> x, field |-> f, tohash |-> ToHash(f),
   objs |-> {[obj |-> o, tosth |-> ToSTHObject(o)] : o \in objs}]
HashLaws(r) == /\ FixedLossless(r.field, HashSize)
               /\ (r.tohash.ok <=> (r.field.wf /\ BLen(r.field.b) = 32))
               /\ \A o \in r.objs : o.tosth.ok <=> (ToHash(o.obj.sha256_root_hash).ok /\ ToHash(o.obj.log_id).ok)

(* ---------- SCT lists ---------- *)
RealSCT(e, k) == EncSCT([version |-> 0, id |-> Pay(32, 123 + k), ts |-> TS[3], ext |-> Pay(e, 9 + k),
                         ds |-> [hash |-> 4, sigalg |-> 3, sig |-> Pay(71, 50 + k)]])
\* a real SCT without extensions is 118 bytes: extensions length at 42..43, signature length at 46..47
DamageElem(b, how) == CASE how = "trail" -> b \o Trail
                        [] how = "trunc" -> Take(b, BLen(b) - 1)
                        [] how = "siglen-1" -> SetByte(b, 47, 70)
                        [] how = "siglen+1" -> SetByte(b, 47, 72)
                        [] how = "extlen+1" -> SetByte(b, 43, 1)
                        [] OTHER -> b
\* the same bytes seen through the entry points that read the list out of a certificate: every way of sitting in
\* the extension for the valid encoding, the well-formed OCTET STRING for every other byte string
CarriedOf(i) == {[wrap |-> w, list |-> ListFromCert(w, i.b), scts |-> SCTsFromCert(w, i.b)] :
                   w \in IF i.m = "valid" \/ Thorough THEN Wraps ELSE {"octet"}}
ListRec(x) ==
  LET real == x.p2 = 1
      scts == CASE x.p2 = 1 -> [i \in 1..Len(RealLists[x.p1]) |-> RealSCT(RealLists[x.p1][i], i).b]
                [] x.p2 = 2 -> [i \in 1..Len(DamagedLists[x.p1]) |-> DamageElem(RealSCT(0, i).b, DamagedLists[x.p1][i])]
                [] OTHER -> [i \in 1..Len(ListPatterns[x.p1]) |-> Pay(ListPatterns[x.p1][i], 21 + 40 * i)]
      exts == IF real THEN RealLists[x.p1] ELSE <<>>
      e == EncSCTList(scts)
      raw == IF e.ok THEN Fail ELSE RawEnc(SCTList, ChainVal(scts))
      \* a whole element more than the list declares, and a list that declares its first element only (the rest is a
      \* well-formed tail): what follows a complete list is trailing data whatever it looks like
      more == IF e.ok /\ Len(scts) >= 1 THEN {In("trail-elem", 0, 0, e.b \o Enc(SerializedSCT, VBytes(scts[1])).b)} ELSE {}
      first == IF e.ok /\ Len(scts) >= 2
               THEN {In("cut-elem", 0, 0, <<Lit(Pad(NumOf(2 + BLen(scts[1])), 2))>> \o Drop(e.b, 2))} ELSE {}
      ins == IF e.ok THEN Muts(e.b, 6) \cup more \cup first ELSE RawInputs(raw) IN
  [kind |-> "sctlist", id |-> x, real |-> real, exts |-> exts, scts |-> scts, enc |-> e,
   ins |-> {[m |-> i.m, p |-> i.p, d |-> i.d, b |-> i.b, dec |-> Dec(SCTList, i.b), complete |-> Complete(SCTList, i.b).ok,
             elems |-> LET l == Complete(SCTList, i.b) IN IF l.ok THEN ElemsOk(l.v) ELSE <<>>,
             carried |-> CarriedOf(i)] : i \in ins}]
ListLaws(r) == /\ RoundTrip(SCTList, ChainVal(r.scts)) /\ NoTrailing(SCTList, ChainVal(r.scts))
               /\ \A i \in r.ins : LawEncDec(SCTList, i.b)
               /\ (r.enc.ok => BLen(r.enc.b) <= 65537)
               /\ (r.real => r.enc.ok /\ BLen(r.enc.b) = 2 + RealTotals[r.id.p1])
               \* the entry points of a certificate: nothing out of an incomplete list, no silent tail, SCTs only from a list
               /\ \A i \in r.ins : \A cw \in i.carried :
                     /\ NoSilentTail(cw.wrap, i.b)
                     /\ (cw.scts.ok => cw.list.ok)
                     /\ (cw.wrap = "octet" => (cw.list.ok <=> i.complete))
                     /\ (cw.wrap \in {"octet+trail", "notoctet"} => ~cw.list.ok /\ ~cw.scts.ok)
                     /\ (cw.scts.ok /\ cw.wrap = "octet" => \A k \in 1..Len(i.elems) : i.elems[k])

(* ---------- the builders of the stored leaf ---------- *)
LogLeafRec(x) ==
  LET builder == BuilderNames[x.p1]  isPre == x.p3 = 1  cert == Pay(PreLens[x.p4], 77)
      certs == [i \in 1..Len(ChainPatterns[x.p2]) |-> Pay(ChainPatterns[x.p2][i], 30 + 11 * i)]
      hash == [present |-> x.p5 > 0, b |-> IF x.p5 > 0 THEN Pay(HashLens[x.p5], 140 + x.p5) ELSE <<>>]
      l == [version |-> 0, leaf_type |-> 0, ts |-> TS[2],
            entry |-> [etype |-> IF isPre THEN 1 ELSE 0, cert |-> IF isPre THEN Pay(33, 8) ELSE cert, ikh |-> Pay(32, 99)], ext |-> <<>>]
      s == StoredLeaf(builder, l, isPre, cert, certs, hash)
      form == ExtraForm(builder, hash) IN
  [kind |-> "logleaf", id |-> x, builder |-> builder, isPre |-> isPre, pre |-> cert, certs |-> certs, hash |-> hash, leaf |-> l,
   form |-> form, stored |-> s,
   \* what an RFC client makes of the stored leaf when it is served as it is
   reads |-> s.ok /\ builder \in LeafBuilders /\ EntryParse(s.leaf_value, s.extra_data).ok,
   extraval |-> IF s.ok /\ form = "rfc" THEN Dec(IF isPre THEN PrecertChainEntry ELSE CertificateChain, s.extra_data).v ELSE VNone]
LogLeafLaws(r) ==
  /\ ServedReadsBack(r.builder, r.leaf, r.isPre, r.pre, r.certs, r.hash)
  /\ FormsDiffer(r.pre)
  /\ (r.form = "hash" <=> (r.builder = "ExtraDataForChainHash" \/ (r.builder = "BuildLogLeafWithChainHash" /\ r.hash.present)))
  /\ (r.form = "rfc" /\ r.stored.ok /\ r.builder \in LeafBuilders => r.reads)
  /\ (r.stored.ok /\ r.form = "hash" => BLen(r.hash.b) <= 256)

FrontEndRec(x) ==
  LET mode == FrontEndModeNames[x.p1] IN
  [kind |-> "frontend", id |-> x, mode |-> mode, isPre |-> x.p2 = 1, n |-> x.p3, builder |-> FrontEndBuilder(mode),
   storedform |-> StoredForm(mode), servedform |-> ServedForm(mode)]
FrontEndLaws(r) == /\ r.servedform = "rfc" /\ (r.storedform = "hash" <=> r.mode = "indirect")
                   /\ r.mode \in FrontEndModes /\ r.builder \in LeafBuilders

CaseRec(x) == CASE x.kind = "leaf" -> LeafRec(x) [] x.kind = "chain" -> ChainRec(x) [] x.kind = "ds" -> DSRec(x)
                [] x.kind = "sct" -> SCTRec(x) [] x.kind = "sth" -> STHRec(x) [] x.kind = "sctlist" -> ListRec(x)
                [] x.kind = "hash" -> HashRec(x) [] x.kind = "logleaf" -> LogLeafRec(x)
                [] x.kind = "frontend" -> FrontEndRec(x)
Laws(x, r) == CASE x.kind = "leaf" -> LeafLaws(r) [] x.kind = "chain" -> ChainLaws(r) [] x.kind = "ds" -> DSLaws(r)
                [] x.kind = "sct" -> SCTLaws(r) [] x.kind = "sth" -> STHLaws(r) [] x.kind = "sctlist" -> ListLaws(r)
                [] x.kind = "hash" -> HashLaws(r) [] x.kind = "logleaf" -> LogLeafLaws(r)
                [] x.kind = "frontend" -> FrontEndLaws(r)

Init == c \in Cases
Next == UNCHANGED c
CheckAndExport == LET r == CaseRec(c) IN Laws(c, r) /\ PrintT(<<"CASE", ToJson(r)>>)
=============================================================================
