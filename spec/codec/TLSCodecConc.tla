---------------------------- MODULE TLSCodecConc ----------------------------
(***************************************************************************)
(* C09, concurrency layer - Enc and Dec are FUNCTIONS for every caller.    *)
(*                                                                         *)
(* TLSCodec.tla decides one call.  The property quantifies over types,     *)
(* values and byte strings, not over processes, goroutines or the moment   *)
(* of a call: "for every Go type ... and every value of it, decoding the   *)
(* encoding returns the value with nothing left over ... no byte string or *)
(* value causes a panic" leaves no room for anything but the arguments.    *)
(* This module states that over behaviours of several callers:             *)
(*                                                                         *)
(*   FunctionLaw   every call, whichever calls are in flight at the same   *)
(*                 time and whether or not the package has met the type    *)
(*                 before (first use, later use), returns what it returns  *)
(*                 alone: Alone(call), the result of TLSCodec.Enc / Dec on *)
(*                 the call's own arguments - never a fault (panic), never *)
(*                 the result of another caller's arguments.               *)
(*                                                                         *)
(* A round is what a harness can impose on real goroutines without hooks   *)
(* inside the package: a solo call (or none), then a WAVE of calls         *)
(* released together, then a solo call (or none); the phases are separated *)
(* by joins, inside a wave every interleaving is possible.  All the types  *)
(* of a round are FRESH: the package has never seen them (the Go harness   *)
(* gets an unlimited supply from reflect.StructOf).                        *)
(*                                                                         *)
(* What makes a round tell a function from a non-function is modelled      *)
(* explicitly (as in SigVerifyHist.tla): the implementation may remember   *)
(* something per type - a table with one cell per member, learnt at the    *)
(* first use - and `disc` says under which discipline:                     *)
(*                                                                         *)
(*   stateless          remembers nothing (tls/tls.go as it stands)        *)
(*   fill-then-publish  a private table is completed and then offered      *)
(*                      (first offer wins); sound                          *)
(*   publish-then-fill  the empty table is registered first "so that only  *)
(*                      one caller does the work" and filled afterwards; a *)
(*                      caller that finds the table trusts it              *)
(*   fill-while-walking registered empty, cell i learnt when member i is   *)
(*                      reached; a call that stops early (a refused value  *)
(*                      or byte string) leaves the rest empty for good     *)
(*   shared-scratch     per-type scratch space written at the start of a   *)
(*                      call and read at its end (a pooled buffer)         *)
(*                                                                         *)
(* FunctionLaw is an invariant under the first two and is REFUTED under    *)
(* the other three; ExposeProbe prints, for every refuting state, the      *)
(* class of the round (ClassOf), and the driver demands that the rounds    *)
(* replayed against tls.Marshal / tls.Unmarshal contain, for each refuted  *)
(* discipline, rounds of an exposing class.                                *)
(***************************************************************************)
EXTENDS Naturals, Sequences, FiniteSets, TLC, Json

CONSTANTS
  Callers,      \* the callers of a wave (the first one also makes the solo calls)
  Types,        \* fresh struct types of a round
  Args,         \* argument identities (value / byte string); equal identity = equal arguments
  NCells,       \* members per type = width of the first-use window
  Disciplines   \* the disciplines explored

VARIABLES
  plan,     \* the round: [pre, wave, post]
  disc,     \* the discipline of the modelled implementation
  phase,    \* "pre" | "wave" | "post" | "end"
  pc,       \* per caller: "idle" | "lookup" | "fill" | "walk"
  cur,      \* per caller: the call in flight
  left,     \* per caller: has it still to make its call of this phase
  pos,      \* per caller: next cell to fill / walk
  own,      \* per caller: it registered the table it is using (publish-then-fill, fill-while-walking)
  priv,     \* per caller: the private table (fill-then-publish)
  tab,      \* per type: the registered table (NoTab: none)
  scratch,  \* per type: the call whose data the scratch space holds
  out       \* per caller: the calls returned so far with their results
vars == <<plan, disc, phase, pc, cur, left, pos, own, priv, tab, scratch, out>>

None == [t |-> "-", a |-> "-", ok |-> TRUE]
Calls == [t : Types, a : Args, ok : BOOLEAN]     \* ok = FALSE: Alone refuses it (a bound is violated) - it stops at the first member
NoTab == <<>>
Empty == [i \in 1..NCells |-> FALSE]
Solo == CHOOSE g \in Callers : TRUE

(* ---------- THE LAW ---------- *)
\* what a call returns alone: nothing but the call occurs on the right-hand side
Alone(c) == [of |-> c, verdict |-> IF c.ok THEN "ok" ELSE "refused"]
Fault(c) == [of |-> c, verdict |-> "fault"]
FunctionLaw == \A g \in Callers : \A i \in 1..Len(out[g]) : out[g][i].res = Alone(out[g][i].call)

(* ---------- rounds ---------- *)
Waves == UNION {[S -> Calls] : S \in {S \in SUBSET Callers : Cardinality(S) >= 2}}
Plans == [pre : Calls \cup {None}, wave : Waves, post : Calls \cup {None}]

\* one round of every orbit of the model's symmetries: types are interchangeable and so are argument identities
\* (both only occur in equalities), and a refused solo call after the wave shows nothing that one before it does not
Canonical(p) ==
  /\ p.wave[CHOOSE g \in DOMAIN p.wave : TRUE].t = (CHOOSE t \in Types : TRUE)
  /\ p.pre # None => p.pre.a = (CHOOSE a \in Args : TRUE)
  /\ p.post # None => p.post.ok

PhaseCalls(p, ph) ==
  CASE ph = "pre" -> IF p.pre = None THEN <<>> ELSE (Solo :> p.pre)
    [] ph = "wave" -> p.wave
    [] ph = "post" -> IF p.post = None THEN <<>> ELSE (Solo :> p.post)
    [] OTHER -> <<>>
NextPhase(ph) == CASE ph = "pre" -> "wave" [] ph = "wave" -> "post" [] OTHER -> "end"

\* the class of a round: what the Go harness can choose
SharedPairs(p) == {q \in (DOMAIN p.wave) \X (DOMAIN p.wave) : q[1] # q[2] /\ p.wave[q[1]].t = p.wave[q[2]].t}
ClassOf(p) ==
  [pre |-> IF p.pre = None THEN "none"
           ELSE IF \E g \in DOMAIN p.wave : p.wave[g].t = p.pre.t THEN (IF p.pre.ok THEN "ok" ELSE "refused")
           ELSE "elsewhere",
   shared |-> SharedPairs(p) # {},                                            \* two callers of the wave on one type
   distinct |-> \E q \in SharedPairs(p) : p.wave[q[1]].a # p.wave[q[2]].a,    \* ... with different arguments
   refusing |-> \E g \in DOMAIN p.wave : ~p.wave[g].ok,                       \* a call of the wave stops early
   post |-> IF p.post = None THEN "none"
            ELSE IF \E g \in DOMAIN p.wave : p.wave[g].t = p.post.t THEN "same" ELSE "elsewhere"]

(* ---------- behaviours ---------- *)
Init ==
  /\ plan \in {p \in Plans : Canonical(p)} /\ disc \in Disciplines
  /\ phase = "pre"
  /\ pc = [g \in Callers |-> "idle"] /\ cur = [g \in Callers |-> None]
  /\ left = [g \in Callers |-> g \in DOMAIN PhaseCalls(plan, "pre")]
  /\ pos = [g \in Callers |-> 1] /\ own = [g \in Callers |-> FALSE]
  /\ priv = [g \in Callers |-> Empty]
  /\ tab = [t \in Types |-> NoTab] /\ scratch = [t \in Types |-> None]
  /\ out = [g \in Callers |-> <<>>]

Invoke(g) ==
  /\ phase # "end" /\ pc[g] = "idle" /\ left[g]
  /\ cur' = [cur EXCEPT ![g] = PhaseCalls(plan, phase)[g]]
  /\ left' = [left EXCEPT ![g] = FALSE]
  /\ pc' = [pc EXCEPT ![g] = "lookup"]
  /\ UNCHANGED <<plan, disc, phase, pos, own, priv, tab, scratch, out>>

\* the first thing a call does with its type
Lookup(g) ==
  /\ pc[g] = "lookup"
  /\ LET t == cur[g].t IN
     CASE disc = "stateless" ->
            /\ pc' = [pc EXCEPT ![g] = "walk"] /\ UNCHANGED <<own, priv, tab, scratch>>
       [] disc = "shared-scratch" ->
            /\ scratch' = [scratch EXCEPT ![t] = cur[g]]
            /\ pc' = [pc EXCEPT ![g] = "walk"] /\ UNCHANGED <<own, priv, tab>>
       [] disc = "fill-then-publish" ->
            /\ pc' = [pc EXCEPT ![g] = IF tab[t] = NoTab THEN "fill" ELSE "walk"]
            /\ priv' = [priv EXCEPT ![g] = Empty] /\ UNCHANGED <<own, tab, scratch>>
       [] disc = "publish-then-fill" ->
            /\ IF tab[t] = NoTab
               THEN tab' = [tab EXCEPT ![t] = Empty] /\ own' = [own EXCEPT ![g] = TRUE] /\ pc' = [pc EXCEPT ![g] = "fill"]
               ELSE UNCHANGED <<tab, own>> /\ pc' = [pc EXCEPT ![g] = "walk"]
            /\ UNCHANGED <<priv, scratch>>
       [] disc = "fill-while-walking" ->
            /\ IF tab[t] = NoTab
               THEN tab' = [tab EXCEPT ![t] = Empty] /\ own' = [own EXCEPT ![g] = TRUE]
               ELSE UNCHANGED <<tab, own>>
            /\ pc' = [pc EXCEPT ![g] = "walk"] /\ UNCHANGED <<priv, scratch>>
  /\ pos' = [pos EXCEPT ![g] = 1]
  /\ UNCHANGED <<plan, disc, phase, cur, left, out>>

\* learning one member's cell (one step each: this is the first-use window)
Fill(g) ==
  /\ pc[g] = "fill"
  /\ LET t == cur[g].t IN
     IF pos[g] <= NCells
     THEN /\ IF disc = "fill-then-publish"
             THEN priv' = [priv EXCEPT ![g][pos[g]] = TRUE] /\ UNCHANGED tab
             ELSE tab' = [tab EXCEPT ![t][pos[g]] = TRUE] /\ UNCHANGED priv
          /\ pos' = [pos EXCEPT ![g] = @ + 1] /\ UNCHANGED pc
     ELSE /\ IF disc = "fill-then-publish" /\ tab[t] = NoTab      \* first offer wins
             THEN tab' = [tab EXCEPT ![t] = priv[g]] ELSE UNCHANGED tab
          /\ pc' = [pc EXCEPT ![g] = "walk"] /\ pos' = [pos EXCEPT ![g] = 1] /\ UNCHANGED priv
  /\ UNCHANGED <<plan, disc, phase, cur, left, own, scratch, out>>

Return(g, res) ==
  /\ out' = [out EXCEPT ![g] = Append(@, [call |-> cur[g], res |-> res])]
  /\ pc' = [pc EXCEPT ![g] = "idle"] /\ cur' = [cur EXCEPT ![g] = None]
  /\ own' = [own EXCEPT ![g] = FALSE] /\ pos' = [pos EXCEPT ![g] = 1]

\* is cell i there for g: its own completed work, or the registered table
Known(g, t, i) ==
  CASE disc \in {"stateless", "shared-scratch"} -> TRUE
    [] disc = "fill-then-publish" -> IF tab[t] # NoTab THEN tab[t][i] ELSE priv[g][i]
    [] OTHER -> tab[t][i]

\* one member of the struct per step
Walk(g) ==
  /\ pc[g] = "walk"
  /\ LET t == cur[g].t  i == pos[g]
         learns == disc = "fill-while-walking" /\ own[g] IN
     IF i > NCells
     THEN /\ Return(g, IF disc = "shared-scratch" THEN Alone(scratch[t]) ELSE Alone(cur[g]))
          /\ UNCHANGED tab
     ELSE IF ~learns /\ ~Known(g, t, i)
     THEN Return(g, Fault(cur[g])) /\ UNCHANGED tab                \* the nil cell is dereferenced
     ELSE /\ IF learns THEN tab' = [tab EXCEPT ![t][i] = TRUE] ELSE UNCHANGED tab
          /\ IF ~cur[g].ok                                          \* a refused call stops at the first member
             THEN Return(g, Alone(cur[g]))
             ELSE pos' = [pos EXCEPT ![g] = @ + 1] /\ UNCHANGED <<pc, cur, own, out>>
  /\ UNCHANGED <<plan, disc, phase, left, priv, scratch>>

\* join: everything of this phase has returned
Advance ==
  /\ phase # "end"
  /\ \A g \in Callers : pc[g] = "idle" /\ ~left[g]
  /\ phase' = NextPhase(phase)
  /\ left' = [g \in Callers |-> g \in DOMAIN PhaseCalls(plan, NextPhase(phase))]
  /\ UNCHANGED <<plan, disc, pc, cur, pos, own, priv, tab, scratch, out>>

Next == \/ \E g \in Callers : Invoke(g) \/ Lookup(g) \/ Fill(g) \/ Walk(g)
        \/ Advance
Spec == Init /\ [][Next]_vars /\ WF_vars(Next)

(* ---------- laws and probes ---------- *)
TypeOK ==
  /\ phase \in {"pre", "wave", "post", "end"}
  /\ \A g \in Callers : pc[g] \in {"idle", "lookup", "fill", "walk"} /\ pos[g] \in 1..(NCells + 1)
  /\ \A g \in Callers : Len(out[g]) <= 3
\* every call of the round is made and returns (under fairness): nobody waits for anybody
Returned == phase = "end" => \A ph \in {"pre", "wave", "post"} : \A g \in DOMAIN PhaseCalls(plan, ph) :
                               \E i \in 1..Len(out[g]) : out[g][i].call = PhaseCalls(plan, ph)[g]
Completes == <>(phase = "end")
\* never fails; prints the class of every round on which the modelled discipline is told from the function
ExposeProbe == FunctionLaw \/ PrintT(<<"EXPOSED", ToJson([disc |-> disc, class |-> ClassOf(plan)])>>)
\* refuting states are not expanded
StopAtRefutation == FunctionLaw
=============================================================================
