\* the refuted variant: an entry that produced ANY finding is dropped and the walk ends there - a warning costs the object:
\* TLC must report ListCoherent violated (the defect class the binding looks for in the code)
CONSTANTS
  EntryPolicy = "giveUp"
  BlockGuard = TRUE
  Deep = FALSE
  Cases <- MCSmallCases
INIT LInit
NEXT LNext
INVARIANTS LTypeOK Total ListCoherent
CHECK_DEADLOCK FALSE
