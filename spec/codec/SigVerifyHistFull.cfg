\* thorough tier, history layer: longer sessions, more key types, more algorithm codes (run with -simulate).
\* (Every code 0..255 is the business of the one-call table, SigVerifyFull.cfg; a history needs the classes.)
CONSTANTS
  KeyTypes = {"rsa1024", "rsa2048", "rsa3072", "p224", "p256", "p384", "p521", "dsa1024", "dsa2048", "ed25519"}
  CtorKeyTypes = {"rsa1024", "rsa2048", "rsa3072", "p224", "p256", "p384", "p521", "dsa1024", "dsa2048", "ed25519"}
  HashMutCodes = {0, 1, 2, 3, 4, 5, 6, 7, 8, 9, 16, 64, 127, 128, 254, 255}
  SigMutCodes = {0, 1, 2, 3, 4, 5, 7, 8, 64, 127, 128, 254, 255}
  Depth = 14
INIT HInit
NEXT SimNext
INVARIANTS HistLaw ExportWalk
CHECK_DEADLOCK FALSE
