\* quick tier: model-level laws + export of every case (-workers 1)
CONSTANTS Tier = "quick"
INIT Init
NEXT Next
INVARIANTS CheckAndExport
CHECK_DEADLOCK FALSE
