\* the refuted variant: the tolerant reader takes "the input begins like a block" for "there is a block":
\* TLC must report Total violated
CONSTANTS
  EntryPolicy = "collect"
  BlockGuard = FALSE
  Deep = FALSE
  Cases <- MCSmallCases
INIT LInit
NEXT LNext
INVARIANTS LTypeOK Total
CHECK_DEADLOCK FALSE
