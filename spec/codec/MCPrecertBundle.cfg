\* quick tier: the reading clause OwnOctetsOnly over every bundle of at most 3 certificate kinds
CONSTANTS
  MaxBundle = 3
  Carry = FALSE
INIT Init
NEXT Next
INVARIANTS BundleLaws BundleExport
CHECK_DEADLOCK FALSE
