--------------------------- MODULE MCAsn1LaxHist ---------------------------
(* Simulation / export instance of Asn1LaxHist: TLC draws histories of Depth calls on one target type, checks the
   laws of the destination model on every state and prints each finished history; harness/c10 (TestHistory)
   replays them into the fork and into encoding/asn1. *)
EXTENDS Asn1LaxHist, Json

\* every shape except the long inputs of the length-octet dimension
SmallLengthShapes == {"oct1", "oct128", "bit128", "seq0", "seq128"}
MCHistShapes == (DOMAIN Shapes \ LengthShapes) \cup SmallLengthShapes
Containers == {"struct", "seqof", "setof", "explicit", "optional"}
MCHistWraps == {<<>>} \cup {<<w>> : w \in Containers}
MCHistWrapsDeep == MCHistWraps \cup {<<a, b>> : a \in {"seqof", "setof", "optional"}, b \in Containers}

MCTimeMinutes == {-90, -30, 30, 90}
MCTimeOffsets == {-720, -60, 0, 60, 330, 840}

\* attached to the unique closing step (the simulator evaluates invariants on every candidate successor)
ExportFinished == (Len(hist) = Depth + 1) =>
   PrintT(<<"HIST", ToJson([key |-> key, tree |-> HTree, slots |-> Slots, steps |-> SubSeq(hist, 1, Depth)])>>)
=============================================================================
