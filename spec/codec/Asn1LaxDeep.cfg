CONSTANTS
  ShapeNames <- AllShapes
  Variants = {0, 1, 2, 3}
  LaxTolerated = {"nonMinimalInteger", "emptyOID", "printableIsLatin1", "printableIsT61"}
  AlwaysRejected = {"nonMinimalLength", "leadingZeroLength", "indefiniteLength", "nonMinimalTag", "truncated",
                    "wrongTag", "requiredFieldMissing", "explicitPrimitive", "emptyInteger", "integerTooLarge",
                    "oidTruncatedArc", "oidArcTooLarge", "printableIsNeither", "badUTF8", "badIA5", "badNumeric",
                    "badBool", "boolTwoOctets", "badBitStringPadding", "bitStringPadTooBig", "emptyBitString", "badTime"}
  DeliberateDiff = {"oidArcLeading80", "highTagLeading80", "genTimeFraction", "setOfUnsorted"}
  Benign = {"rawInnerNonDER", "trailingInSequence", "utcNoSeconds"}
  AncestorDefects <- QuickAncestorDefects
  Wraps <- Wraps2
  TimeBoundaries = {1950, 2050}
  TimeMinutes <- MCTimeMinutes
  TimeOffsets <- MCTimeOffsetsSmall
  StringFormShapes <- QuickStringShapes
INIT Init
NEXT Next
INVARIANTS TypeOK LaxSuperset LaxOnlyDocumented LaxPropagates AncestorDepth LaxIsLocal StrictEqUpstream DiffsAreDiffs
           Rejected BenignAccepted RoundTrip TimeRoundTripDER ZoneOffsetRoundTrip TimeFormsAccepted TagByWrittenYear LengthRoundTrip LengthFormsRejected RawContentKeeps
           ClassQuirkNamed ClassDefaultContext ClassRoundTrip ClassMismatch
           ExplicitEmptyLaw StringFormLaw BmpIsUtf16 Export
CHECK_DEADLOCK FALSE
