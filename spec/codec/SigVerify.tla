----------------------------- MODULE SigVerify -----------------------------
(***************************************************************************)
(* C05 - signature verification accepts exactly the valid log signatures.  *)
(*                                                                         *)
(* Case-analysis specification (a pure decision function, no behaviour).   *)
(* Written from the property text, RFC 5246 4.7 / 7.4.1.4.1 and RFC 6962   *)
(* 2.1.4 / 3.2 / 3.5, not from the Go code.                                *)
(*                                                                         *)
(* Abstraction.  A signature value is a token recording how it was made:   *)
(* which key signed, which hash function digested the message, which       *)
(* scheme (RSASSA-PKCS1-v1_5, DSA, ECDSA) produced it, over which message, *)
(* and in which form the bytes are presented (intact, or one of a          *)
(* catalogue of corruptions).  A message is the vector of the signed       *)
(* fields of the object; 0 = the value that was signed, 1 = another value. *)
(* "Cryptographically valid" is equality of the token's components with    *)
(* what the verifier is given (unforgeability and collision resistance are *)
(* assumed; the harness re-attaches real keys, real digests and real       *)
(* bytes).  A mutation changes exactly one component of what is presented. *)
(*                                                                         *)
(* Where the property text is silent and the library has a definite        *)
(* behaviour, the behaviour is a NAMED clause below (HashSupport,          *)
(* LogListAlgorithms, StrictDER, CreateKeys, Unencodable, EntryFromChain,  *)
(* ExactBytes, ListIsJSON); nothing else is assumed.                       *)
(***************************************************************************)
EXTENDS Integers, FiniteSets

CONSTANTS
  KeyTypes,      \* key types of signers / presented keys (subset of DOMAIN KeyInfo)
  CtorKeyTypes,  \* key types of the constructor table (subset of DOMAIN KeyInfo)
  HashMutCodes,  \* declared-hash codes tried as mutations (subset of 0..255)
  SigMutCodes    \* declared-signature codes tried as mutations (subset of 0..255)

(* ---------- keys ---------- *)
\* fam: the signature scheme the key belongs to; "other" = a key type for which RFC 5246 has no
\* SignatureAlgorithm code and RFC 6962 no definition.  bits / curve: what the key policy looks at.
KI(f, b, c) == [fam |-> f, bits |-> b, curve |-> c]
KeyInfo ==
  [ rsa512  |-> KI("rsa", 512, ""),   rsa1024 |-> KI("rsa", 1024, ""), rsa2047 |-> KI("rsa", 2047, ""),
    rsa2048 |-> KI("rsa", 2048, ""),  rsa3072 |-> KI("rsa", 3072, ""), rsa4096 |-> KI("rsa", 4096, ""),
    p224    |-> KI("ecdsa", 0, "P-224"), p256 |-> KI("ecdsa", 0, "P-256"),
    p384    |-> KI("ecdsa", 0, "P-384"), p521 |-> KI("ecdsa", 0, "P-521"),
    dsa1024 |-> KI("dsa", 1024, ""),  dsa2048 |-> KI("dsa", 2048, ""),
    ed25519 |-> KI("other", 0, ""),   x25519  |-> KI("other", 0, ""),  nil |-> KI("other", 0, "") ]
Fam(kt) == KeyInfo[kt].fam

(* ---------- RFC 5246 7.4.1.4.1 code points ---------- *)
Codes == 0..255
HashNoneCode == 0
\* clause HashSupport: the library implements md5(1) sha1(2) sha224(3) sha256(4) sha384(5) sha512(6);
\* none(0) and 7..255 select no hash function.
SupportedHashes == 1..6
SigAnonymous == 0
\* the code a key family is declared with; -1: no code exists, every declaration is a mismatch
SchemeCode(fam) == CASE fam = "rsa" -> 1 [] fam = "dsa" -> 2 [] fam = "ecdsa" -> 3 [] OTHER -> -1
\* what a signer of that family writes into the algorithm field (a family without a code declares anonymous)
DeclaredSig(kt) == IF SchemeCode(Fam(kt)) = -1 THEN SigAnonymous ELSE SchemeCode(Fam(kt))
\* the signature value is a DER SEQUENCE { r INTEGER, s INTEGER }
DERValue(fam) == fam \in {"ecdsa", "dsa"}

(* ---------- signed objects ---------- *)
Kinds == {"SCTx509", "SCTprecert", "STH", "LogList", "Blob"}
\* RFC 6962 3.2 (version, signature_type, timestamp, entry_type, signed_entry, extensions),
\* 3.5 (version, signature_type, timestamp, tree_size, sha256_root_hash); signature_type is fixed per kind.
SignedFields(k) ==
  CASE k = "SCTx509"    -> {"version", "timestamp", "entrytype", "cert", "extensions"}
    [] k = "SCTprecert" -> {"version", "timestamp", "entrytype", "issuerkeyhash", "tbs", "extensions"}
    [] k = "STH"        -> {"version", "timestamp", "treesize", "roothash"}
    [] k = "LogList"    -> {"data"}
    [] k = "Blob"       -> {"data"}
AsSigned(k) == [f \in SignedFields(k) |-> 0]
\* clause Unencodable: the signed structures are RFC 5246 presentation-language structures whose variable-length
\* fields have a floor and a ceiling (CtExtensions <0..2^16-1>, ASN.1Cert <1..2^24-1>, TBSCertificate <1..2^24-1>)
\* and whose entry_type is an enumeration with two defined members.  A value outside the domain of its field
\* (extensions of 65536 bytes or more, an empty or over-long certificate / TBSCertificate, an undefined entry type)
\* has NO encoding: canonical signed bytes do not exist, so nothing can be a valid signature over them and the
\* verification is refused with an error - like every other error without a trace (SigVerifyHist: Residue).
\* Field value 2 stands for such a value (0 = the value that was signed, 1 = another encodable value).
UnserFields(k) ==
  CASE k = "SCTx509"    -> {"entrytype", "cert", "extensions"}
    [] k = "SCTprecert" -> {"entrytype", "tbs", "extensions"}
    [] OTHER -> {}     \* TreeHeadSignature has fixed-width fields only; log list and blob are signed as they are
\* the verification of this kind of object builds the signed bytes from the object's fields (the others are handed
\* the bytes)
Serializes(k) == k \in {"SCTx509", "SCTprecert", "STH"}

(* ---------- the bytes of an object that is signed as it is ---------- *)
\* clause ExactBytes.  A signed log list and a DigitallySigned blob reach the verifier as BYTES (loglist3.
\* NewFromSignedJSON, tls.VerifySignature, SignatureVerifier.VerifySignature): "the canonical signed bytes" are the
\* bytes the signer signed, octet for octet.  Byte strings that a reader of the document would call "the same" are
\* other bytes: the signature does not cover them, and a signature made over them does not cover the document without
\* them.  The FORM of the data is therefore a dimension of the case space, next to its value (the `data` field,
\* 0 / 1): one document D, written as
\*   plain        D itself
\*   bom-prefix   a UTF-8 byte order mark in front of D
\*   ws-prefix    white space (space, tab, LF, CRLF) in front of D
\*   ws-suffix    white space / a final newline behind D
\*   nul-suffix   NUL padding behind D
\*   crlf         every LF of D written CRLF
\*   case         letter case changed where a tolerant reader does not look at it (log list: the member names,
\*                which Go's JSON decoder matches case-insensitively; blob: ASCII letters)
\*   compact / reordered / escaped   (log list only) the same JSON value serialised again: insignificant white
\*                space removed; object members in another order; a character of a string written as \uXXXX
\* An object is SIGNED in form c.dform and PRESENTED in form PForm(c) (mutation "norm": the same document in
\* another form, the signature value untouched).  Valid demands the two forms to be equal: every normalisation
\* before verification (Strip(x): form x is read as plain; Add(x): plain is read as form x) is a false accept of
\* bytes that were not signed AND a false reject of bytes that were (NormVerdict, NormExposed below).
AffixForms == {"bom-prefix", "ws-prefix", "ws-suffix", "nul-suffix"}
JSONReserialisations == {"compact", "reordered", "escaped"}
RawBytes(k) == k \in {"LogList", "Blob"}
DataForms(k) == CASE k = "LogList" -> {"plain", "crlf", "case"} \cup AffixForms \cup JSONReserialisations
                  [] k = "Blob"    -> {"plain", "crlf", "case"} \cup AffixForms
                  [] OTHER         -> {"plain"}
\* clause ListIsJSON.  loglist3.NewFromSignedJSON verifies and then reads the bytes as a JSON log list (RFC 8259:
\* a JSON text may be surrounded by white space; a byte order mark or NUL is not white space).  It returns a list iff
\* the signature is valid over exactly the bytes AND they are a JSON text; when the signature IS valid and the
\* bytes are not JSON, the refusal is a parse failure, not a statement that the signature does not verify.
JSONForm(f) == f \notin {"bom-prefix", "nul-suffix"}

(* ---------- how a precertificate entry reaches the verifier ---------- *)
\* clause EntryFromChain: ctutil.VerifySCT is handed a certificate chain, not a signed_entry.  For a precertificate
\* the signed TBSCertificate is (RFC 6962 3.2) the precertificate's with exactly the poison extension taken out
\* and, when it was issued by a Precertificate Signing Certificate (chain[1] carries the CT extended key usage),
\* with the issuer name and the authority key identifier of the final issuer IN PLACE: every other extension keeps
\* its bytes and its position.  For a certificate with embedded SCTs it is the certificate's with exactly the SCT
\* list taken out.  The shape of the chain is a dimension of the case space (the same as spec/ctfe/EntryShapes.tla:
\* Issuance, Orders); the verdict must not depend on it (ShapeIrrelevant): the harness derives the signed bytes of
\* every shape independently (harness/ref) and signs those.
\*   iss    direct: issued by the CA whose key the issuer_key_hash names; viaP: by a precertificate signing
\*          certificate (key-id AKI); viaPf: the same with a keyid+issuer+serial AKI; viaPm: the CT usage listed
\*          after another extended key usage
\*   order  where the RFC 6962 extension that is taken out (poison; SCT list of the embedded form) sits: last (what
\*          an encoder that appends it produces), directly before the authority key identifier with further
\*          extensions behind it, or first
Issuances == {"direct", "viaP", "viaPf", "viaPm"}
Orders == {"std", "poisonBeforeAki", "poisonFirst"}
Shape(i, o) == [iss |-> i, order |-> o]
StdShape == Shape("direct", "std")
Shapes(k) == IF k = "SCTprecert" THEN {Shape(i, o) : i \in Issuances, o \in Orders} ELSE {StdShape}
\* SCTs and STHs are verified through a SignatureVerifier, which is subject to the key policy
ViaVerifier(k) == k \in {"SCTx509", "SCTprecert", "STH"}
\* clause LogListAlgorithms: a signed log list carries a bare signature value; the algorithm is not
\* declared but implied: SHA-256 and the scheme of the presented key, RSA or ECDSA keys only.
ImpliedAlg(k) == k = "LogList"
LogListKeyFams == {"rsa", "ecdsa"}
ObjHashes(k) == IF ImpliedAlg(k) THEN {4} ELSE SupportedHashes

(* ---------- mutations (exactly one component changes) ---------- *)
Mut(m, n, t) == [m |-> m, n |-> n, t |-> t]
NoMut == Mut("none", 0, "")
FieldMuts(k) == {Mut("field", 0, f) : f \in SignedFields(k)}
UnserMuts(k) == {Mut("unser", 0, f) : f \in UnserFields(k)}
KeyMuts(kt) == {Mut("key-same-type", 0, kt)} \cup {Mut("key-other-type", 0, t) : t \in KeyTypes \ {kt}}
HashMuts(h) == {Mut("hash", n, "") : n \in HashMutCodes \ {h}}
SigMuts(s) == {Mut("sig", n, "") : n \in SigMutCodes \ {s}}
\* forms of the signature value.  DER schemes: a flipped bit inside r or s, a cut-off encoding,
\* bytes after the complete SEQUENCE ("trailing"), r or s negative / zero, r + group order (out of range),
\* content after s INSIDE the SEQUENCE ("inner-trailing": a third element or stray bytes - not a
\* Dss-Sig-Value / Ecdsa-Sig-Value of RFC 3279, and not "bytes trailing a complete value" either),
\* clause StrictDER: a non-minimal INTEGER or length encoding is not DER.
\* RSA: flipped bit, one byte short, one byte long (either end), all zero.
\* "glued": a genuine signature by the right key under the right algorithms over OTHER bytes that end with the
\* canonical signed bytes (some prefix || signed bytes; in a session the prefix is what an encoder would have
\* emitted of the object refused just before): valid for those bytes, not for "exactly the canonical signed bytes".
CommonForms == {"bitflip", "truncated", "trailing", "empty", "glued"}
DERForms == {"negative-r", "negative-s", "zero-r", "zero-s", "r-plus-order", "inner-trailing", "nonminimal-int", "nonminimal-len"}
RSAForms == {"leading-zero", "all-zero"}
Forms(fam) == CommonForms \cup (IF DERValue(fam) THEN DERForms ELSE IF fam = "rsa" THEN RSAForms ELSE {})
ValueMuts(kt) == {Mut("value", 0, f) : f \in Forms(Fam(kt))}
\* the same document in another form than the one it was signed in (ExactBytes)
NormMuts(k, d) == {Mut("norm", 0, f) : f \in DataForms(k) \ {d}}
Muts(k, kt, h, d) ==
  {NoMut} \cup FieldMuts(k) \cup UnserMuts(k) \cup KeyMuts(kt) \cup ValueMuts(kt) \cup NormMuts(k, d)
  \cup (IF ImpliedAlg(k) THEN {} ELSE HashMuts(h) \cup SigMuts(DeclaredSig(kt)))
\* The shape of the chain is independent of the algorithm dimensions: the one-call table crosses the non-standard
\* shapes with everything that touches the signed bytes (no mutation, every signed field changed or made
\* unencodable, another key, a signature over other bytes) under the hash RFC 6962 logs use; sessions
\* (SigVerifyHist) take any mutation under any shape.
ShapeHashes == {4}
ShapeMuts(k, kt) == {NoMut} \cup FieldMuts(k) \cup UnserMuts(k) \cup {Mut("key-same-type", 0, kt), Mut("value", 0, "glued")}
\* The form of the data is independent of the algorithm dimensions as well: the one-call table crosses every form
\* the object can be SIGNED in with every form it can be PRESENTED in (and no other mutation) under the hash a log
\* list implies; objects signed in the plain form take every mutation, "norm" included, under every hash.
FormHashes == {4}

(* ---------- cases ---------- *)
\* a verification case: an object of kind `kind`, validly signed by key <<key, 1>> with hash `hash`,
\* presented after mutation `mut`; `allow` = the caller opted in to non-compliant keys.
Allows(k) == IF ViaVerifier(k) THEN BOOLEAN ELSE {FALSE}
VerifyCases ==
  UNION { UNION { UNION { { [kind |-> k, key |-> kt, hash |-> h, mut |-> mu, allow |-> a, shape |-> StdShape, dform |-> "plain"] :
                            mu \in Muts(k, kt, h, "plain"), a \in Allows(k) }
                          : h \in ObjHashes(k) } : kt \in KeyTypes } : k \in Kinds }
ShapeCases ==
  UNION { UNION { { [kind |-> k, key |-> kt, hash |-> h, mut |-> mu, allow |-> a, shape |-> sh, dform |-> "plain"] :
                      mu \in ShapeMuts(k, kt), a \in Allows(k), sh \in Shapes(k) \ {StdShape},
                      h \in ShapeHashes \cap ObjHashes(k) }
                  : kt \in KeyTypes } : k \in Kinds }
\* signed in form d (not the plain one), presented as signed or in any other form
FormCases ==
  UNION { UNION { UNION { { [kind |-> k, key |-> kt, hash |-> h, mut |-> mu, allow |-> a, shape |-> StdShape, dform |-> d] :
                              mu \in {NoMut} \cup NormMuts(k, d), a \in Allows(k), h \in FormHashes \cap ObjHashes(k) }
                          : d \in DataForms(k) \ {"plain"} } : kt \in KeyTypes } : k \in Kinds }
\* the part of the table that spans the form dimension: signed in any form (the plain one: these are VerifyCases),
\* presented as signed or in any other form, nothing else changed
PlainFormCases ==
  UNION { UNION { { [kind |-> k, key |-> kt, hash |-> h, mut |-> mu, allow |-> FALSE, shape |-> StdShape, dform |-> "plain"] :
                      mu \in {NoMut} \cup NormMuts(k, "plain"), h \in FormHashes \cap ObjHashes(k) }
                  : kt \in KeyTypes } : k \in {x \in Kinds : RawBytes(x)} }
FormTable == FormCases \cup PlainFormCases
\* constructor table and signature creation table, in the same record shape
CtorCases == { [kind |-> "Ctor", key |-> kt, hash |-> 0, mut |-> NoMut, allow |-> a, shape |-> StdShape, dform |-> "plain"] : kt \in CtorKeyTypes, a \in BOOLEAN }
CreateCases == { [kind |-> "Create", key |-> kt, hash |-> h, mut |-> NoMut, allow |-> FALSE, shape |-> StdShape, dform |-> "plain"] :
                 kt \in KeyTypes, h \in HashMutCodes }
Cases == VerifyCases \cup ShapeCases \cup FormCases \cup CtorCases \cup CreateCases

(* ---------- what is presented to the verifier ---------- *)
Key(t, i) == [type |-> t, id |-> i]
Token(c) == [signer |-> Key(c.key, 1), hashUsed |-> c.hash, scheme |-> SchemeCode(Fam(c.key)),
             msg |-> AsSigned(c.kind), dform |-> c.dform, form |-> "intact"]
PKeyType(c) == IF c.mut.m = "key-other-type" THEN c.mut.t ELSE c.key
PKey(c) == CASE c.mut.m = "key-same-type"  -> Key(c.key, 2)
             [] c.mut.m = "key-other-type" -> Key(c.mut.t, 1)
             [] OTHER -> Key(c.key, 1)
PHash(c) == IF c.mut.m = "hash" THEN c.mut.n ELSE c.hash
PSig(c) == IF ImpliedAlg(c.kind) THEN SchemeCode(Fam(PKeyType(c)))
           ELSE IF c.mut.m = "sig" THEN c.mut.n ELSE DeclaredSig(c.key)
PMsg(c) == CASE c.mut.m = "field" -> [AsSigned(c.kind) EXCEPT ![c.mut.t] = 1]
             [] c.mut.m = "unser" -> [AsSigned(c.kind) EXCEPT ![c.mut.t] = 2]      \* Unencodable
             [] OTHER -> AsSigned(c.kind)
\* the form the data is presented in (ExactBytes)
PForm(c) == IF c.mut.m = "norm" THEN c.mut.t ELSE c.dform
\* canonical signed bytes exist for the presented fields
Encodable(msg) == \A f \in DOMAIN msg : msg[f] # 2
PVal(c) == IF c.mut.m = "value" THEN [Token(c) EXCEPT !.form = c.mut.t] ELSE Token(c)
Presented(c) == [key |-> PKey(c), hash |-> PHash(c), sig |-> PSig(c), msg |-> PMsg(c), dform |-> PForm(c), val |-> PVal(c), kind |-> c.kind]

(* ---------- the property ---------- *)
\* the bytes are a complete, well-formed signature value of the scheme (trailing bytes are ignored
\* after a DER value only)
FormOK(form, scheme) == form = "intact" \/ (form = "trailing" /\ scheme \in {2, 3})
\* "the signature value it carries is cryptographically valid for the given key, under the declared
\*  hash and signature algorithm, over exactly the canonical signed bytes"
Valid(p) ==
  /\ p.hash \in SupportedHashes                   \* the declared hash selects a hash function (HashSupport)
  /\ p.hash = p.val.hashUsed                      \* ... the one the signer used
  /\ p.sig = SchemeCode(Fam(p.key.type))          \* declared algorithm and key type agree
  /\ p.sig = p.val.scheme                         \* ... and it is the scheme that made the value
  /\ p.key = p.val.signer                         \* for the given key
  /\ Encodable(p.msg)                             \* there are canonical signed bytes (Unencodable)
  /\ p.msg = p.val.msg                            \* ... exactly those the value was made over:
  /\ p.dform = p.val.dform                        \*     the same document, written the same way (ExactBytes)
  /\ FormOK(p.val.form, p.val.scheme)
  /\ (ImpliedAlg(p.kind) => Fam(p.key.type) \in LogListKeyFams)    \* LogListAlgorithms
Expected(c) == IF Valid(Presented(c)) THEN "ok" ELSE "error"
\* clause ListIsJSON: what loglist3.NewFromSignedJSON returns, and which of its two steps refuses
ListVerdict(c) == IF Expected(c) = "ok" /\ JSONForm(PForm(c)) THEN "ok" ELSE "error"
ListStage(c) == IF Expected(c) = "error" THEN "verify" ELSE IF JSONForm(PForm(c)) THEN "none" ELSE "parse"

\* "A verifier cannot be constructed for RSA keys below 2048 bits or ECDSA keys off P-256 unless the
\*  caller explicitly opted in to non-compliant keys, and never for key types RFC 6962 does not define."
Compliant(kt) == \/ (Fam(kt) = "rsa" /\ KeyInfo[kt].bits >= 2048)
                 \/ (Fam(kt) = "ecdsa" /\ KeyInfo[kt].curve = "P-256")
Constructible(kt, allow) == Fam(kt) \in {"rsa", "ecdsa"} /\ (Compliant(kt) \/ allow)
\* verification through a verifier built for the presented key (ctutil.VerifySCT and friends)
EndToEnd(c) == IF Constructible(PKeyType(c), c.allow) THEN Expected(c) ELSE "error"

\* clause CreateKeys: tls.CreateSignature signs with RSA and ECDSA private keys and a supported hash;
\* everything else is an error.  What it returns must verify (checked by the harness with std crypto).
CreateOutcome(kt, h) == IF Fam(kt) \in {"rsa", "ecdsa"} /\ h \in SupportedHashes THEN "ok" ELSE "error"

Outcome(c) == CASE c.kind = "Ctor"   -> IF Constructible(c.key, c.allow) THEN "ok" ELSE "error"
                [] c.kind = "Create" -> CreateOutcome(c.key, c.hash)
                [] OTHER -> Expected(c)

(* ---------- laws of the decision table (checked by TLC on every case) ---------- *)
IsVerify(c) == c.kind \in Kinds
Signable(c) == SchemeCode(Fam(c.key)) # -1 /\ (ImpliedAlg(c.kind) => Fam(c.key) \in LogListKeyFams)
\* (no mutation: the object as it was signed, in whatever form that was)
Harmless(c) == c.mut = NoMut \/ (c.mut = Mut("value", 0, "trailing") /\ DERValue(Fam(c.key)))

\* verdicts are "ok" or "error"; no input maps to a panic or to a third outcome
NoThirdOutcome(c) == Outcome(c) \in {"ok", "error"} /\ (IsVerify(c) => EndToEnd(c) \in {"ok", "error"})
\* acceptance only for the unmutated object and for trailing bytes after a DER value ...
OkOnlyIfHarmless(c) == IsVerify(c) /\ Expected(c) = "ok" => Harmless(c) /\ Signable(c)
\* ... and those are accepted (the "if" of "if and only if")
HarmlessIsOk(c) == IsVerify(c) /\ Harmless(c) /\ Signable(c) => Expected(c) = "ok"
\* a declared algorithm that does not match the key type is an error, whatever else holds
MismatchIsError(c) == IsVerify(c) /\ PSig(c) # SchemeCode(Fam(PKeyType(c))) => Expected(c) = "error"
\* an object without canonical signed bytes is refused, by the verification proper and end to end (Unencodable)
UnserIsError(c) == IsVerify(c) /\ c.mut.m = "unser" => ~Encodable(PMsg(c)) /\ Expected(c) = "error" /\ EndToEnd(c) = "error"
\* the verdict does not depend on how the precertificate was issued or where its extensions sit (EntryFromChain)
ShapeIrrelevant(c) == IsVerify(c) => /\ c.shape \in Shapes(c.kind)
                                     /\ Expected(c) = Expected([c EXCEPT !.shape = StdShape])
                                     /\ EndToEnd(c) = EndToEnd([c EXCEPT !.shape = StdShape])
\* ExactBytes: the same document in another form than the signed one does not verify - whichever of the two forms is
\* the plain one -; in the form it was signed in it does (that is HarmlessIsOk: no mutation, any dform)
ExactBytes(c) == IsVerify(c) => /\ c.dform \in DataForms(c.kind) /\ PForm(c) \in DataForms(c.kind)
                                /\ (PForm(c) # c.dform => Expected(c) = "error")
                                /\ (c.mut.m = "norm" => PForm(c) # c.dform /\ RawBytes(c.kind))
\* ListIsJSON: the list is returned only when the signature verifies, and then iff the bytes are a JSON text
ListLaw(c) == c.kind = "LogList" => /\ (ListVerdict(c) = "ok" => Expected(c) = "ok")
                                    /\ (Expected(c) = "ok" => (ListVerdict(c) = "ok" <=> JSONForm(PForm(c))))
                                    /\ (ListStage(c) = "none" <=> ListVerdict(c) = "ok")
\* A verifier that NORMALISES what it is handed before it verifies, as a non-function of the bytes to be told from
\* Valid: Strip(x) reads form x as the plain form, Add(x) reads the plain form as form x; everything else as it is.
Normalised(n, f) == IF n.op = "strip" THEN (IF f = n.x THEN "plain" ELSE f) ELSE (IF f = "plain" THEN n.x ELSE f)
Normalisers(k) == {[op |-> o, x |-> x] : o \in {"strip", "add"}, x \in DataForms(k) \ {"plain"}}
NormVerdict(n, c) == IF Valid([Presented(c) EXCEPT !.dform = Normalised(n, PForm(c))]) THEN "ok" ELSE "error"
\* the table tells every such verifier from Valid, in both directions (a false accept and a false reject)
NormExposed(k, cases) ==
  \A n \in Normalisers(k) :
     /\ \E c \in cases : c.kind = k /\ Expected(c) = "error" /\ NormVerdict(n, c) = "ok"
     /\ \E c \in cases : c.kind = k /\ Expected(c) = "ok" /\ NormVerdict(n, c) = "error"
\* the key policy: opting in only ever adds keys; without it exactly the compliant keys; never other families
PolicyLaw(kt) == /\ (Constructible(kt, FALSE) => Constructible(kt, TRUE))
                 /\ (Constructible(kt, FALSE) <=> Compliant(kt))
                 /\ (Constructible(kt, TRUE) => Fam(kt) \in {"rsa", "ecdsa"})
                 /\ (Fam(kt) = "rsa" /\ KeyInfo[kt].bits < 2048 => ~Constructible(kt, FALSE) /\ Constructible(kt, TRUE))
\* nothing verifies end to end that does not verify, or whose verifier cannot be built
EndToEndLaw(c) == IsVerify(c) /\ EndToEnd(c) = "ok" => Expected(c) = "ok" /\ Constructible(PKeyType(c), c.allow)
Law(c) == /\ NoThirdOutcome(c) /\ OkOnlyIfHarmless(c) /\ HarmlessIsOk(c) /\ MismatchIsError(c) /\ EndToEndLaw(c)
          /\ UnserIsError(c) /\ ShapeIrrelevant(c) /\ PolicyLaw(c.key) /\ ExactBytes(c) /\ ListLaw(c)
=============================================================================
