----------------------------- MODULE MCTLSCodec -----------------------------
(***************************************************************************)
(* Case enumeration for TLSCodec (C09): type shapes generated from the tag *)
(* grammar x values x byte-string mutations.  One TLC state per (type,     *)
(* value); the laws are invariants of that state and every state is        *)
(* exported as one CASE record with the model's Enc / Dec results, which   *)
(* the Go harness replays against tls.Marshal / tls.Unmarshal on types it  *)
(* builds at run time with reflect.StructOf.                               *)
(***************************************************************************)
EXTENDS Mutations, Json, TLC, IOUtils

CONSTANT Tier     \* "quick" | "thorough": which kind lists / families are enumerated

\* The driver runs Parts TLC processes in parallel (export needs -workers 1); this one takes the cases whose
\* ordinal is Part modulo Parts.  Both come from the environment: VERIF_PART, VERIF_PARTS.
EnvOr(name, default) == IF name \in DOMAIN IOEnv THEN IOEnv[name] ELSE default
Part == atoi(EnvOr("VERIF_PART", "0"))
Parts == atoi(EnvOr("VERIF_PARTS", "1"))

VARIABLE c
vars == <<c>>

(* ---------- field kinds: a type and the values tried for it ---------- *)
KV(t, vals) == [t |-> t, vals |-> vals]
Seq123(w) == [j \in 1..w |-> j]                       \* all bytes distinct: offset / byte-order errors show
NV(ds) == [i \in 1..Len(ds) |-> VNum(ds[i])]
Pay(n, id) == IF n = 0 THEN <<>> ELSE <<Fill(n, id)>>

KU(w) == KV(U(w), NV(IF w = 3 THEN << <<>>, Seq123(3), MaxNum(3), PowNum(3) >>      \* Uint24Overflow
                     ELSE << <<>>, Seq123(w), MaxNum(w) >>))
KES(w) == KV(EnumSize(w), NV(IF w < 8 THEN << <<>>, Seq123(w), MaxNum(w), PowNum(w) >>
                             ELSE << <<>>, Seq123(w), MaxNum(w) >>))
\* maxval:d - d, d+1 (EnumBoundIsWidth: accepted when it still fits the width) and the width's maximum
KEM(d) == LET w == IF d = <<>> THEN 1 ELSE Len(d) IN
          KV(EnumMax(d), NV(<< <<>>, d, Inc(d), MaxNum(w) >>))
KArr(n, id) == KV(Arr(n), << VBytes(Pay(n, id)), VBytes(Pay(n, id + 100)) >>)
KVec(min, max, lens, id) == KV(Vec(min, max, Byte), [i \in 1..Len(lens) |-> VBytes(Pay(lens[i], id + 7 * i))])

N(n) == NumOf(n)
QuickKinds == <<
  KU(1), KU(2), KU(3), KU(4), KU(8),
  KES(1), KES(2), KES(3), KES(8),
  KEM(N(2)), KEM(N(256)), KEM(N(65536)), KEM(PowNum(3)), KEM(MaxNum(7)), KEM(PowNum(7)),
  KArr(1, 11), KArr(3, 12),
  KVec(N(0), N(255), <<0, 1, 255, 256>>, 20), KVec(N(1), N(255), <<1, 0, 255>>, 30),
  KVec(N(0), N(256), <<0, 255, 256, 257>>, 40), KVec(N(2), N(4), <<2, 1, 4, 5>>, 50),
  KVec(N(0), N(65535), <<0, 3>>, 60), KVec(N(0), MaxNum(3), <<0, 2>>, 70), KVec(N(0), PowNum(3), <<0, 2>>, 80),
  KVec(N(0), MaxNum(8), <<0, 2>>, 90),
  \* (appended: the indices above are used by SmallIdx and by MCTLSCodecConc)  the lower edge of the one-byte class:
  \* maxval:0 and <0..0> beside every other kind, in both positions (family "pair")
  KEM(N(0)), KVec(N(0), N(0), <<0, 1, 255, 256>>, 95) >>
MoreKinds == <<
  KES(4), KES(5), KES(6), KES(7),
  KEM(N(255)), KEM(N(65535)), KEM(MaxNum(3)), KEM(MaxNum(4)), KEM(PowNum(4)), KEM(MaxNum(5)), KEM(PowNum(5)),
  KEM(MaxNum(6)), KEM(PowNum(6)), KEM(MaxNum(8)),
  KArr(32, 13),
  KVec(N(0), MaxNum(4), <<0, 2>>, 100), KVec(N(0), PowNum(4), <<0, 2>>, 110), KVec(N(0), MaxNum(5), <<0, 2>>, 120),
  KVec(N(0), PowNum(5), <<0, 2>>, 130), KVec(N(0), MaxNum(6), <<0, 2>>, 140), KVec(N(0), PowNum(6), <<0, 2>>, 150),
  KVec(N(0), MaxNum(7), <<0, 2>>, 160), KVec(N(0), PowNum(7), <<0, 2>>, 170),
  KVec(N(300), N(65535), <<300, 299>>, 180) >>
K == IF Tier = "quick" THEN QuickKinds ELSE QuickKinds \o MoreKinds
NK == Len(K)
\* reduced list for the shapes whose number grows with the cube of the list:
\* u8, u16, u24, u64, enum size:2, enum maxval:2^56 (8 bytes), [3]byte, <0..255>, <2..4>, <0..2^24-1>
SmallIdx == IF Tier = "quick" THEN <<1, 2, 3, 5, 7, 15, 17, 18, 21, 23>>
            ELSE <<1, 2, 3, 4, 5, 6, 7, 8, 9, 11, 14, 15, 16, 17, 18, 20, 21, 23, 25>>
NS == Len(SmallIdx)
S(i) == K[SmallIdx[i]]
MaxV == 4
Val(kind, vi) == kind.vals[((vi - 1) % Len(kind.vals)) + 1]

(* ---------- variant building blocks ---------- *)
Inner == Struct(<<Field("P", U(1)), Field("Q", U(3))>>)
InnerVal(vi) == VStruct(<<VNum(<<7>>), VNum(IF vi % 2 = 0 THEN Seq123(3) ELSE <<9, 8>>)>>)
ArmKinds == <<
  KV(U(2), NV(<< Seq123(2), <<>> >>)),
  KV(U(3), NV(<< Seq123(3), <<255>> >>)),
  KV(Vec(N(0), N(255), Byte), <<VBytes(Pay(3, 5)), VBytes(<<>>)>>),
  KV(Arr(3), <<VBytes(Pay(3, 9))>>),
  KV(Inner, <<InnerVal(1), InnerVal(2)>>),
  KV(EnumSize(2), NV(<< Seq123(2) >>)),
  \* an arm whose bound is 0 in every layout: the tag of an arm carries selector: and val: too, and its prefix is still
  \* one byte (every bound x every carrier as an arm: family "bound", places 4 and 5)
  KV(Vec(N(0), N(0), Byte), <<VBytes(<<>>), VBytes(Pay(2, 6))>>) >>
NA == Len(ArmKinds)
SelKinds == << EnumSize(1), EnumMax(N(65535)), EnumMax(N(300)), EnumSize(8) >>
\* the value carried by arm number a of a selector: small for 1-byte selectors, across the byte boundary otherwise
ArmVal(sk, a) == IF SelKinds[sk].w = 1 THEN N(a) ELSE IF a = 1 THEN N(1) ELSE N(300)
\* layouts: where the selector and the two arms sit among ordinary fields
\*  1: Sel X Y        2: P Sel X Y R      3: Sel Q X Y (one field away)     4: Sel X Q Y (arms apart)
VariantFields(form, sk, a1, a2, i) ==
  LET sel == Field("Sel", SelKinds[sk])
      x == Arm("X", ArmKinds[a1].t, "Sel", ArmVal(sk, 1))
      y == Arm("Y", ArmKinds[a2].t, "Sel", ArmVal(sk, 2))
      p == Field("P", S(i).t)   q == Field("Q", S(i).t)   r == Field("R", U(2)) IN
  CASE form = 1 -> <<sel, x, y>>
    [] form = 2 -> <<p, sel, x, y, r>>
    [] form = 3 -> <<sel, q, x, y>>
    [] form = 4 -> <<sel, x, q, y>>
\* value index: 1 arm X, 2 arm Y, 3 selector without arm, 4 chosen arm absent, 5 both arms present, 6 arm X (2nd value)
VariantVals(form, sk, a1, a2, i, vi) ==
  LET selv == VNum(CASE vi \in {1, 4, 5, 6} -> ArmVal(sk, 1) [] vi = 2 -> ArmVal(sk, 2) [] OTHER -> N(3))
      x == IF vi \in {1, 5, 6} THEN Val(ArmKinds[a1], vi) ELSE VNone
      y == IF vi \in {2, 5} THEN Val(ArmKinds[a2], vi) ELSE VNone
      o == Val(S(i), vi)   r == VNum(Seq123(2)) IN
  CASE form = 1 -> <<selv, x, y>>
    [] form = 2 -> <<o, selv, x, y, r>>
    [] form = 3 -> <<selv, o, x, y>>
    [] form = 4 -> <<selv, x, o, y>>

(* ---------- big vectors: bounds at the 2^16 / 2^24 boundaries, payloads as one fill ---------- *)
BigSpecs == <<
  [min |-> N(0), max |-> N(65535), lens |-> <<65535, 65536>>, nbs |-> {1, 2, 3}],
  [min |-> N(0), max |-> N(65536), lens |-> <<65535, 65536, 65537>>, nbs |-> {1, 2, 3}],
  [min |-> N(65536), max |-> MaxNum(3), lens |-> <<65535, 65536>>, nbs |-> {1, 2, 3}],
  [min |-> N(1), max |-> MaxNum(3), lens |-> <<16777215, 16777216>>, nbs |-> {2}],
  [min |-> N(0), max |-> PowNum(3), lens |-> <<16777216, 16777217>>, nbs |-> {2}] >>
BigNeighbours == << U(1), U(3), EnumSize(2) >>
BigNVal(j) == VNum(Seq123(BigNeighbours[j].w))

(* ---------- tag bounds: every boundary of the width rule x every spelling x every place a tag can stand ---------- *)
\* "the number of bytes needed for values up to the bound, never less than one": both ends of every width class
Bounds == << N(0), N(1), N(255), N(256), MaxNum(2), PowNum(2), MaxNum(3), PowNum(3), MaxNum(4), PowNum(4),
             MaxNum(5), PowNum(5), MaxNum(6), PowNum(6), MaxNum(7), PowNum(7), MaxNum(8) >>
\* carriers of a bound: 1 enum maxval:b   2 opaque<0..b> minlen:0,maxlen:b   3 opaque<0..b> maxlen:b
\*                      4 opaque<0..b> maxlen:b,minlen:0   5 uint16<0..b> (the general, non-opaque vector path)
\*                      6 opaque<b..b> minlen:b,maxlen:b (the degenerate range: minlen = maxlen is not "inverted")
NBoundForms == 6
\* places: 1 the params of MarshalWithParams / UnmarshalWithParams   2 the only member   3 between a uint8 and a uint16
\*         (exact framing, nothing left over)   4 the chosen arm of a select   5 an arm that is not chosen
NBoundPlaces == 5
\* payload lengths tried for a vector bound (bytes): 0, the bound and its neighbours where a payload of that size is practical
BoundLens(b) ==
  CASE b = N(0) -> <<0, 1, 255, 256>>
    [] b = N(1) -> <<0, 1, 2, 255>>
    [] b = N(255) -> <<0, 254, 255, 256>>
    [] b = N(256) -> <<0, 255, 256, 257>>
    [] b = MaxNum(2) -> <<0, 2, 65535, 65536>>
    [] b = PowNum(2) -> <<0, 65535, 65536, 65537>>
    [] OTHER -> <<0, 1, 2, 300>>
BoundType(bi, form) ==
  LET b == Bounds[bi] IN
  CASE form = 1 -> EnumMax(b)
    [] form = 2 -> VecForm(N(0), b, Byte, "minmax")
    [] form = 3 -> VecForm(N(0), b, Byte, "max")
    [] form = 4 -> VecForm(N(0), b, Byte, "maxmin")
    [] form = 5 -> VecForm(N(0), b, U(2), "max")
    [] form = 6 -> VecForm(b, b, Byte, "minmax")
BoundVal(bi, form, vi) ==
  LET b == Bounds[bi]  w == BoundWidth(b) IN
  CASE form = 1 -> VNum((<< <<>>, b, Inc(b), MaxNum(w) >>)[vi])       \* Inc(b) may need w+1 bytes: no encoding
    \* 0 .. 3 elements (the byte bounds at the ends of the width are the opaque forms' business; long lists cost TLC minutes)
    [] form = 5 -> VList([e \in 1..(vi - 1) |-> VNum(<<e, 7 * e>>)])
    [] OTHER -> VBytes(Pay(BoundLens(b)[vi], 17 + 5 * vi))
BoundSel == EnumMax(N(1))
BoundFields(bi, form, place) ==
  LET T == BoundType(bi, form) IN
  CASE place = 2 -> <<Field("A", T)>>
    [] place = 3 -> <<Field("P", U(1)), Field("A", T), Field("R", U(2))>>
    [] place = 4 -> <<Field("Sel", BoundSel), Arm("X", T, "Sel", N(0)), Arm("Y", U(2), "Sel", N(1)), Field("R", U(2))>>
    [] place = 5 -> <<Field("Sel", BoundSel), Arm("X", U(2), "Sel", N(0)), Arm("Y", T, "Sel", N(1)), Field("R", U(2))>>
BoundVals(bi, form, place, vi) ==
  LET v == BoundVal(bi, form, vi) IN
  CASE place = 2 -> <<v>>
    [] place = 3 -> <<VNum(<<7>>), v, VNum(Seq123(2))>>
    [] place = 4 -> <<VNum(<<>>), v, VNone, VNum(Seq123(2))>>
    \* the arm with the bound is not chosen; value 4: it is present although not chosen (no encoding)
    [] place = 5 -> <<VNum(<<>>), VNum(Seq123(2)), IF vi = 4 THEN v ELSE VNone, VNum(<<3, 4>>)>>

(* ---------- families of type shapes ---------- *)
Idx(fam, i, j, l, vi) == [fam |-> fam, i |-> i, j |-> j, l |-> l, vi |-> vi]
ElemBounds == << <<N(0), N(255)>>, <<N(3), N(9)>> >>      \* vectors of structs / integers: byte bounds
Families ==
       {Idx("top", i, 0, 0, vi) : i \in 1..NK, vi \in 1..MaxV}
  \cup {Idx("one", i, 0, 0, vi) : i \in 1..NK, vi \in 1..MaxV}
  \cup {Idx("pair", i, j, 0, vi) : i \in 1..NK, j \in 1..NK, vi \in 1..MaxV}
  \cup {Idx("triple", i, j, l, vi) : i \in 1..NS, j \in 1..NS, l \in 1..NS, vi \in 1..3}
  \cup {Idx("nest", i, j, l, vi) : i \in 1..NS, j \in 1..NS, l \in 1..NS, vi \in 1..2}
  \cup {Idx("vecs", i, j, l, vi) : i \in 1..NS, j \in 1..NS, l \in 1..2, vi \in 1..4}
  \cup {Idx("vecu", i, j, l, vi) : i \in 1..NS, j \in {2, 3, 4, 8}, l \in 1..2, vi \in 1..4}
  \cup {Idx("variant", (sk - 1) * 4 + form, (a1 - 1) * NA + ((a1 - 1 + d) % NA) + 1, i, vi) :
           sk \in 1..Len(SelKinds), form \in 1..4, a1 \in 1..NA, d \in 0..1, i \in {1, 3}, vi \in 1..6}
  \cup {x \in {Idx("bound", bi, form, place, vi) : bi \in 1..Len(Bounds), form \in 1..NBoundForms, place \in 1..NBoundPlaces, vi \in 1..4} :
           x.l = 5 => x.vi \in {1, 4}}
  \cup {x \in {Idx("big", i, j, l, vi) : i \in 1..Len(BigSpecs), j \in 1..Len(BigNeighbours), l \in 1..2, vi \in 1..3} :
           x.j \in BigSpecs[x.i].nbs /\ x.vi <= Len(BigSpecs[x.i].lens)}

F(name, kind) == Field(name, kind.t)
Elem(j, l) == IF l = 1 THEN Struct(<<F("B", S(j))>>) ELSE Struct(<<F("B", S(j)), Field("C", U(3))>>)
ElemVal(j, l, vi) == IF l = 1 THEN VStruct(<<Val(S(j), vi)>>) ELSE VStruct(<<Val(S(j), vi), VNum(Seq123(3))>>)
VForm(x) == ((x.i - 1) % 4) + 1
VSel(x) == ((x.i - 1) \div 4) + 1
VA1(x) == ((x.j - 1) \div NA) + 1
VA2(x) == ((x.j - 1) % NA) + 1

TypeOf(x) ==
  CASE x.fam = "top" -> K[x.i].t
    [] x.fam = "one" -> Struct(<<F("A", K[x.i])>>)
    [] x.fam = "pair" -> Struct(<<F("A", K[x.i]), F("B", K[x.j])>>)
    [] x.fam = "triple" -> Struct(<<F("A", S(x.i)), F("B", S(x.j)), F("C", S(x.l))>>)
    [] x.fam = "nest" -> Struct(<<F("A", S(x.i)),
                                  Field("N", Struct(<<F("B", S(x.j)), Field("M", Struct(<<F("C", S(x.l))>>))>>)),
                                  F("D", S(x.i))>>)
    [] x.fam = "vecs" -> Struct(<<F("A", S(x.i)), Field("V", Vec(ElemBounds[x.l][1], ElemBounds[x.l][2], Elem(x.j, x.l))), Field("Z", U(3))>>)
    [] x.fam = "vecu" -> Struct(<<F("A", S(x.i)), Field("V", Vec(ElemBounds[x.l][1], ElemBounds[x.l][2], U(x.j)))>>)
    [] x.fam = "variant" -> Struct(VariantFields(VForm(x), VSel(x), VA1(x), VA2(x), x.l))
    [] x.fam = "bound" -> IF x.l = 1 THEN BoundType(x.i, x.j) ELSE Struct(BoundFields(x.i, x.j, x.l))
    [] x.fam = "big" -> LET s == BigSpecs[x.i] nb == Field("A", BigNeighbours[x.j]) v == Field("V", Vec(s.min, s.max, Byte)) IN
                        Struct(IF x.l = 1 THEN <<nb, v>> ELSE <<v, nb>>)

\* number of elements tried for vectors of structs / integers
ElemCount(vi) == vi - 1
ValOf(x) ==
  CASE x.fam = "top" -> Val(K[x.i], x.vi)
    [] x.fam = "one" -> VStruct(<<Val(K[x.i], x.vi)>>)
    [] x.fam = "pair" -> VStruct(<<Val(K[x.i], x.vi), Val(K[x.j], x.vi)>>)
    [] x.fam = "triple" -> VStruct(<<Val(S(x.i), x.vi), Val(S(x.j), x.vi), Val(S(x.l), x.vi)>>)
    [] x.fam = "nest" -> VStruct(<<Val(S(x.i), x.vi),
                                   VStruct(<<Val(S(x.j), x.vi), VStruct(<<Val(S(x.l), x.vi)>>)>>),
                                   Val(S(x.i), x.vi + 1)>>)
    [] x.fam = "vecs" -> VStruct(<<Val(S(x.i), x.vi), VList([e \in 1..ElemCount(x.vi) |-> ElemVal(x.j, x.l, x.vi + e)]), VNum(Seq123(3))>>)
    [] x.fam = "vecu" -> VStruct(<<Val(S(x.i), x.vi),
                                   VList([e \in 1..ElemCount(x.vi) |-> VNum([d \in 1..x.j |-> (16 * e + d) % 256])])>>)
    [] x.fam = "variant" -> VStruct(VariantVals(VForm(x), VSel(x), VA1(x), VA2(x), x.l, x.vi))
    [] x.fam = "bound" -> IF x.l = 1 THEN BoundVal(x.i, x.j, x.vi) ELSE VStruct(BoundVals(x.i, x.j, x.l, x.vi))
    [] x.fam = "big" -> LET s == BigSpecs[x.i] n == s.lens[((x.vi - 1) % Len(s.lens)) + 1]
                            v == VBytes(Pay(n, 3 + x.vi)) IN
                        VStruct(IF x.l = 1 THEN <<BigNVal(x.j), v>> ELSE <<v, BigNVal(x.j)>>)

(* ---------- byte strings fed to Dec (Mutations.tla) ---------- *)
Mutations(e, big) == MutationsOf(e, IF big THEN 0 ELSE 10, LitsBetween(e, 1, IF big THEN 6 ELSE 14))

\* a value without encoding: its unchecked layout (when there is one) must not decode to it
NegInputs(raw) == IF raw.ok THEN {In("raw", 0, 0, raw.b), In("rawtrail", 0, 0, raw.b \o Trail)} ELSE {}

\* the type is handed to MarshalWithParams / UnmarshalWithParams with its tag as params
IsTop(x) == x.fam = "top" \/ (x.fam = "bound" /\ x.l = 1)
CaseRec(x) ==
  LET T == TypeOf(x)  v == ValOf(x)  e == Enc(T, v)
      raw == IF e.ok THEN Fail ELSE RawEnc(T, v)
      ins == IF e.ok THEN Mutations(e.b, x.fam = "big" \/ (x.fam = "bound" /\ BLen(e.b) > 4096)) ELSE NegInputs(raw) IN
  [id |-> x, top |-> IsTop(x), t |-> T, v |-> v, enc |-> e, raw |-> raw,
   ins |-> {[m |-> i.m, p |-> i.p, d |-> i.d, b |-> i.b, dec |-> Dec(T, i.b)] : i \in ins}]

(* ---------- the laws, per case ---------- *)
Laws(r) ==
  /\ LawDecEnc(r.t, r.v, <<>>)
  /\ LawDecEnc(r.t, r.v, Trail)
  /\ LawBoundsAgree(r.t, r.v)
  /\ \A i \in r.ins : LawEncDec(r.t, i.b)
  /\ \A i \in r.ins : i.dec.ok => BLen(i.dec.rest) <= BLen(i.b)

Ordinal(x) == x.i + 7 * x.j + 13 * x.l + 31 * x.vi
Mine(x) == Ordinal(x) % Parts = Part

Init == c \in {x \in Families : Mine(x)}
Next == UNCHANGED c
LawsHold == Laws(CaseRec(c))
Export == PrintT(<<"CASE", ToJson(CaseRec(c))>>)
CheckAndExport == LET r == CaseRec(c) IN Laws(r) /\ PrintT(<<"CASE", ToJson(r)>>)
\* vacuity: the enumeration reaches accepting and rejecting outcomes in both directions
=============================================================================
